//! Drop-in for the part of `std::io` that `stdlib::io::cgetline` uses: `io::stdin().read_line`.
pub use std::io::*;
use crate::os::{self, err_repr, errno_error, CallResult, StdinEvent};

pub struct Stdin(());

pub fn stdin() -> Stdin {
    Stdin(())
}

/// `io::stdin().lock()`: a buffered reader over the same (simulated or real) line source, so that
/// `BufRead::read_line` / `lines()` on a locked handle see the scripted stdin too.
pub struct StdinLock {
    buf: Vec<u8>,
    pos: usize,
}

impl Stdin {
    pub fn lock(&self) -> StdinLock {
        StdinLock { buf: Vec::new(), pos: 0 }
    }
    pub fn lines(self) -> std::io::Lines<StdinLock> {
        std::io::BufRead::lines(self.lock())
    }
}

impl std::io::Read for StdinLock {
    fn read(&mut self, out: &mut [u8]) -> Result<usize> {
        let avail = std::io::BufRead::fill_buf(self)?;
        let n = avail.len().min(out.len());
        out[..n].copy_from_slice(&avail[..n]);
        std::io::BufRead::consume(self, n);
        Ok(n)
    }
}

impl std::io::BufRead for StdinLock {
    fn fill_buf(&mut self) -> Result<&[u8]> {
        if self.pos >= self.buf.len() {
            let mut line = String::new();
            Stdin(()).read_line(&mut line)?;
            self.buf = line.into_bytes();
            self.pos = 0;
        }
        Ok(&self.buf[self.pos..])
    }
    fn consume(&mut self, n: usize) {
        self.pos = (self.pos + n).min(self.buf.len());
    }
}

impl Stdin {
    pub fn read_line(&self, buf: &mut String) -> Result<usize> {
        if !os::is_installed() {
            return std::io::stdin().read_line(buf);
        }
        let (idx, res, injected) = os::with(|os| {
            let (idx, fault) = os.take_fault();
            if let Some(f) = fault {
                return (idx, Err(errno_error(f.errno)), true);
            }
            let ev = os.stdin.get(os.stdin_pos).cloned().unwrap_or(StdinEvent::Eof);
            if os.stdin_pos < os.stdin.len() {
                os.stdin_pos += 1;
            }
            let res = match ev {
                StdinEvent::Eof => Ok(String::new()),
                StdinEvent::Err(errno) => Err(errno_error(errno)),
                StdinEvent::Line(bytes) => String::from_utf8(bytes).map_err(|_| {
                    Error::new(ErrorKind::InvalidData, "stream did not contain valid UTF-8")
                }),
            };
            (idx, res, false)
        })
        .unwrap();
        let repr = match &res {
            Ok(s) => CallResult::Ok(s.clone()),
            Err(e) => err_repr(e),
        };
        os::with(|os| os.log(idx, "stdin_read_line", vec![], repr, injected, false));
        let s = res?;
        buf.push_str(&s);
        Ok(s.len())
    }
}
