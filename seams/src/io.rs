//! Drop-in for the part of `std::io` that `stdlib::io::cgetline` uses: `io::stdin().read_line`.
pub use std::io::*;
use crate::os::{self, err_repr, errno_error, CallResult, StdinEvent};

pub struct Stdin(());

pub fn stdin() -> Stdin {
    Stdin(())
}

/// `io::stdin().lock()`: a buffered reader over the same (simulated or real) line source, so that
/// `BufRead::read_line` / `lines()` on a locked handle see the scripted stdin too.
pub struct StdinLock {
    buf: Vec<u8>,
    pos: usize,
}

impl Stdin {
    pub fn lock(&self) -> StdinLock {
        StdinLock { buf: Vec::new(), pos: 0 }
    }
    pub fn lines(self) -> std::io::Lines<StdinLock> {
        std::io::BufRead::lines(self.lock())
    }
}

impl std::io::Read for StdinLock {
    fn read(&mut self, out: &mut [u8]) -> Result<usize> {
        let avail = std::io::BufRead::fill_buf(self)?;
        let n = avail.len().min(out.len());
        out[..n].copy_from_slice(&avail[..n]);
        std::io::BufRead::consume(self, n);
        Ok(n)
    }
}

impl std::io::BufRead for StdinLock {
    fn fill_buf(&mut self) -> Result<&[u8]> {
        if self.pos >= self.buf.len() {
            let mut line = String::new();
            Stdin(()).read_line(&mut line)?;
            self.buf = line.into_bytes();
            self.pos = 0;
        }
        Ok(&self.buf[self.pos..])
    }
    fn consume(&mut self, n: usize) {
        self.pos = (self.pos + n).min(self.buf.len());
    }
}

impl Stdin {
    pub fn read_line(&self, buf: &mut String) -> Result<usize> {
        if !os::is_installed() {
            return std::io::stdin().read_line(buf);
        }
        let mut partial: Option<String> = None;
        let (idx, res, injected) = os::with(|os| {
            let (idx, fault) = os.take_fault();
            if let Some(f) = fault {
                // torn: part of the line has already arrived (a first read(2) delivered bytes
                // without a newline) when the failure comes: `buf` holds that part, as it does with
                // the real `read_line`, and the rest of the line stays in the stream
                if f.torn == 1 {
                    if let Some(StdinEvent::Line(bytes)) = os.stdin.get(os.stdin_pos).cloned() {
                        let text = String::from_utf8_lossy(&bytes).into_owned();
                        let cut = text.char_indices().map(|(i, _)| i).nth(text.chars().count() / 2).unwrap_or(0);
                        if cut > 0 && std::str::from_utf8(&bytes).is_ok() {
                            partial = Some(text[..cut].to_string());
                            os.stdin[os.stdin_pos] = StdinEvent::Line(text[cut..].as_bytes().to_vec());
                        }
                    }
                }
                return (idx, Err(errno_error(f.errno)), true);
            }
            let ev = os.stdin.get(os.stdin_pos).cloned().unwrap_or(StdinEvent::Eof);
            if os.stdin_pos < os.stdin.len() {
                os.stdin_pos += 1;
            }
            let res = match ev {
                StdinEvent::Eof => Ok(String::new()),
                StdinEvent::Err(errno) => Err(errno_error(errno)),
                StdinEvent::Line(bytes) => String::from_utf8(bytes).map_err(|_| {
                    Error::new(ErrorKind::InvalidData, "stream did not contain valid UTF-8")
                }),
            };
            (idx, res, false)
        })
        .unwrap();
        let repr = match &res {
            Ok(s) => CallResult::Ok(s.clone()),
            Err(e) => err_repr(e),
        };
        let torn = partial.is_some();
        os::with(|os| os.log(idx, "stdin_read_line", vec![], repr, injected, torn));
        if let Some(p) = partial {
            buf.push_str(&p);
        }
        let s = res?;
        buf.push_str(&s);
        Ok(s.len())
    }
}
