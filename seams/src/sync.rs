//! Drop-in for `std::sync::RwLock` inside `variable::Mut`.
//!
//! *Plain mode* (no simulation active on this OS thread): a pass-through to `std::sync::RwLock`.
//!
//! *Sim mode* (between [`sim_begin`] and [`sim_end`], called by the simulator inside a shuttle
//! execution): every acquire and release is a scheduling point of the shuttle scheduler, and the
//! admission policy is the one of std's futex-based RwLock on Linux, modelled explicitly:
//!
//! * a writer is admitted iff nobody holds the lock;
//! * a reader is admitted iff no writer holds the lock **and no writer is waiting** (std blocks new
//!   readers behind a queued writer; a *recursive* read is therefore fine as long as no writer
//!   queues in between, and deadlocks when one does);
//! * a blocked thread waits on a shuttle `Condvar`, so "all tasks blocked" is reported by shuttle
//!   as a deadlock.
//!
//! The data and the poison flag live in a real inner `std::sync::RwLock`, taken with `try_*`
//! after admission (which cannot fail, because admission is exclusive in exactly std's way).
use std::cell::{Cell, RefCell};
use std::ops::{Deref, DerefMut};
use std::sync::{Arc, LockResult, PoisonError, TryLockError};

struct Gate {
    mutex: shuttle::sync::Mutex<()>,
    cv: shuttle::sync::Condvar,
}

#[derive(Clone, Copy, Debug, PartialEq, Eq)]
pub enum LockEventKind {
    ReadRequest,
    ReadAcquired,
    ReadBlocked,
    ReadReleased,
    WriteRequest,
    WriteAcquired,
    WriteBlocked,
    WriteReleased,
}

#[derive(Clone, Copy, Debug, PartialEq, Eq)]
pub struct LockEvent {
    pub actor: usize,
    pub lock: usize,
    pub kind: LockEventKind,
}

#[derive(Default, Clone, Debug)]
pub struct Probes {
    /// a reader asked while a writer was queued behind other readers
    pub reader_behind_queued_writer: u64,
    /// a task took a read lock on a cell it already holds a read lock on
    pub nested_read: u64,
    /// a writer had to wait
    pub writer_waited: u64,
    /// a reader had to wait
    pub reader_waited: u64,
    pub reads: u64,
    pub writes: u64,
}

thread_local! {
    static GATE: RefCell<Option<Arc<Gate>>> = const { RefCell::new(None) };
    static NEXT_LOCK_ID: Cell<usize> = const { Cell::new(0) };
    static EVENTS: RefCell<Vec<LockEvent>> = const { RefCell::new(Vec::new()) };
    static PROBES: RefCell<Probes> = RefCell::new(Probes::default());
    /// 0 = writer-preferring (std on Linux, gating), 1 = reader-preferring (non-gating variant)
    static POLICY: Cell<u8> = const { Cell::new(0) };
}

/// Enter sim mode. Must be called from inside a shuttle execution (it creates shuttle primitives).
pub fn sim_begin(policy: u8) {
    GATE.with(|g| {
        *g.borrow_mut() = Some(Arc::new(Gate {
            mutex: shuttle::sync::Mutex::new(()),
            cv: shuttle::sync::Condvar::new(),
        }))
    });
    POLICY.with(|p| p.set(policy));
    EVENTS.with(|e| e.borrow_mut().clear());
    PROBES.with(|p| *p.borrow_mut() = Probes::default());
}

/// Leave sim mode; returns the lock events and probe counters of the execution.
pub fn sim_end() -> (Vec<LockEvent>, Probes) {
    GATE.with(|g| *g.borrow_mut() = None);
    (
        EVENTS.with(|e| std::mem::take(&mut *e.borrow_mut())),
        PROBES.with(|p| std::mem::take(&mut *p.borrow_mut())),
    )
}

/// Forget sim mode without touching shuttle (used after a failed execution).
pub fn sim_abort() {
    GATE.with(|g| {
        // the gate's shuttle primitives may only be dropped, never used, outside an execution
        let _ = g.borrow_mut().take();
    });
}

/// Lock ids are handed out sequentially per OS thread; reset at the start of a run so that ids
/// are a function of the run alone.
pub fn reset_lock_ids() {
    NEXT_LOCK_ID.with(|n| n.set(0));
}

pub fn sim_active() -> bool {
    GATE.with(|g| g.borrow().is_some())
}

pub(crate) fn current_actor() -> usize {
    if sim_active() {
        usize::from(shuttle::current::me())
    } else {
        0
    }
}

fn gate() -> Option<Arc<Gate>> {
    GATE.with(|g| g.borrow().clone())
}

fn event(lock: usize, kind: LockEventKind) {
    let actor = current_actor();
    EVENTS.with(|e| e.borrow_mut().push(LockEvent { actor, lock, kind }));
}

#[derive(Default)]
struct State {
    readers: Vec<usize>,
    writer: Option<usize>,
    writers_waiting: u32,
}

pub struct RwLock<T> {
    id: usize,
    state: std::sync::Mutex<State>,
    inner: std::sync::RwLock<T>,
}

impl<T> RwLock<T> {
    pub fn new(value: T) -> Self {
        let id = NEXT_LOCK_ID.with(|n| {
            let id = n.get();
            n.set(id + 1);
            id
        });
        RwLock {
            id,
            state: std::sync::Mutex::new(State::default()),
            inner: std::sync::RwLock::new(value),
        }
    }

    pub fn id(&self) -> usize {
        self.id
    }

    pub fn read(&self) -> LockResult<RwLockReadGuard<'_, T>> {
        let Some(gate) = gate() else {
            return match self.inner.read() {
                Ok(g) => Ok(RwLockReadGuard { lock: self, inner: Some(g), sim: false }),
                Err(p) => Err(PoisonError::new(RwLockReadGuard {
                    lock: self,
                    inner: Some(p.into_inner()),
                    sim: false,
                })),
            };
        };
        let me = current_actor();
        let policy = POLICY.with(|p| p.get());
        event(self.id, LockEventKind::ReadRequest);
        let mut g = gate.mutex.lock().unwrap();
        let mut waited = false;
        loop {
            let mut st = self.state.lock().unwrap();
            let blocked_by_queue = st.writers_waiting > 0 && policy == 0;
            if st.writer.is_none() && !blocked_by_queue {
                if st.readers.contains(&me) {
                    PROBES.with(|p| p.borrow_mut().nested_read += 1);
                }
                st.readers.push(me);
                break;
            }
            if st.writer.is_none() && blocked_by_queue && !waited {
                PROBES.with(|p| p.borrow_mut().reader_behind_queued_writer += 1);
            }
            drop(st);
            if !waited {
                waited = true;
                PROBES.with(|p| p.borrow_mut().reader_waited += 1);
                event(self.id, LockEventKind::ReadBlocked);
            }
            g = gate.cv.wait(g).unwrap();
        }
        drop(g);
        PROBES.with(|p| p.borrow_mut().reads += 1);
        event(self.id, LockEventKind::ReadAcquired);
        // scheduling point while the lock is held: other tasks get to see it held
        shuttle::thread::yield_now();
        match self.inner.try_read() {
            Ok(g) => Ok(RwLockReadGuard { lock: self, inner: Some(g), sim: true }),
            Err(TryLockError::Poisoned(p)) => Err(PoisonError::new(RwLockReadGuard {
                lock: self,
                inner: Some(p.into_inner()),
                sim: true,
            })),
            Err(TryLockError::WouldBlock) => {
                unreachable!("simulated RwLock admitted a reader while the inner lock is write-held")
            }
        }
    }

    pub fn write(&self) -> LockResult<RwLockWriteGuard<'_, T>> {
        let Some(gate) = gate() else {
            return match self.inner.write() {
                Ok(g) => Ok(RwLockWriteGuard { lock: self, inner: Some(g), sim: false }),
                Err(p) => Err(PoisonError::new(RwLockWriteGuard {
                    lock: self,
                    inner: Some(p.into_inner()),
                    sim: false,
                })),
            };
        };
        let me = current_actor();
        event(self.id, LockEventKind::WriteRequest);
        let mut g = gate.mutex.lock().unwrap();
        let mut waiting = false;
        loop {
            let mut st = self.state.lock().unwrap();
            if st.writer.is_none() && st.readers.is_empty() {
                if waiting {
                    st.writers_waiting -= 1;
                }
                st.writer = Some(me);
                break;
            }
            if !waiting {
                waiting = true;
                st.writers_waiting += 1;
                PROBES.with(|p| p.borrow_mut().writer_waited += 1);
                drop(st);
                event(self.id, LockEventKind::WriteBlocked);
            } else {
                drop(st);
            }
            g = gate.cv.wait(g).unwrap();
        }
        drop(g);
        PROBES.with(|p| p.borrow_mut().writes += 1);
        event(self.id, LockEventKind::WriteAcquired);
        shuttle::thread::yield_now();
        match self.inner.try_write() {
            Ok(g) => Ok(RwLockWriteGuard { lock: self, inner: Some(g), sim: true }),
            Err(TryLockError::Poisoned(p)) => Err(PoisonError::new(RwLockWriteGuard {
                lock: self,
                inner: Some(p.into_inner()),
                sim: true,
            })),
            Err(TryLockError::WouldBlock) => {
                unreachable!("simulated RwLock admitted a writer while the inner lock is held")
            }
        }
    }

    /// Non-blocking read: a scheduling point, then admission exactly as `read` would decide it.
    pub fn try_read(&self) -> std::sync::TryLockResult<RwLockReadGuard<'_, T>> {
        let Some(gate) = gate() else {
            return match self.inner.try_read() {
                Ok(g) => Ok(RwLockReadGuard { lock: self, inner: Some(g), sim: false }),
                Err(TryLockError::Poisoned(p)) => Err(TryLockError::Poisoned(PoisonError::new(RwLockReadGuard { lock: self, inner: Some(p.into_inner()), sim: false }))),
                Err(TryLockError::WouldBlock) => Err(TryLockError::WouldBlock),
            };
        };
        let me = current_actor();
        let policy = POLICY.with(|p| p.get());
        event(self.id, LockEventKind::ReadRequest);
        let g = gate.mutex.lock().unwrap();
        let admitted = {
            let mut st = self.state.lock().unwrap();
            let ok = st.writer.is_none() && !(st.writers_waiting > 0 && policy == 0);
            if ok {
                st.readers.push(me);
            }
            ok
        };
        drop(g);
        if !admitted {
            return Err(TryLockError::WouldBlock);
        }
        PROBES.with(|p| p.borrow_mut().reads += 1);
        event(self.id, LockEventKind::ReadAcquired);
        shuttle::thread::yield_now();
        match self.inner.try_read() {
            Ok(g) => Ok(RwLockReadGuard { lock: self, inner: Some(g), sim: true }),
            Err(TryLockError::Poisoned(p)) => Err(TryLockError::Poisoned(PoisonError::new(RwLockReadGuard { lock: self, inner: Some(p.into_inner()), sim: true }))),
            Err(TryLockError::WouldBlock) => unreachable!("simulated RwLock admitted a reader while the inner lock is write-held"),
        }
    }

    /// Non-blocking write: a scheduling point, then admission exactly as `write` would decide it.
    pub fn try_write(&self) -> std::sync::TryLockResult<RwLockWriteGuard<'_, T>> {
        let Some(gate) = gate() else {
            return match self.inner.try_write() {
                Ok(g) => Ok(RwLockWriteGuard { lock: self, inner: Some(g), sim: false }),
                Err(TryLockError::Poisoned(p)) => Err(TryLockError::Poisoned(PoisonError::new(RwLockWriteGuard { lock: self, inner: Some(p.into_inner()), sim: false }))),
                Err(TryLockError::WouldBlock) => Err(TryLockError::WouldBlock),
            };
        };
        let me = current_actor();
        event(self.id, LockEventKind::WriteRequest);
        let g = gate.mutex.lock().unwrap();
        let admitted = {
            let mut st = self.state.lock().unwrap();
            let ok = st.writer.is_none() && st.readers.is_empty();
            if ok {
                st.writer = Some(me);
            }
            ok
        };
        drop(g);
        if !admitted {
            return Err(TryLockError::WouldBlock);
        }
        PROBES.with(|p| p.borrow_mut().writes += 1);
        event(self.id, LockEventKind::WriteAcquired);
        shuttle::thread::yield_now();
        match self.inner.try_write() {
            Ok(g) => Ok(RwLockWriteGuard { lock: self, inner: Some(g), sim: true }),
            Err(TryLockError::Poisoned(p)) => Err(TryLockError::Poisoned(PoisonError::new(RwLockWriteGuard { lock: self, inner: Some(p.into_inner()), sim: true }))),
            Err(TryLockError::WouldBlock) => unreachable!("simulated RwLock admitted a writer while the inner lock is held"),
        }
    }

    pub fn is_poisoned(&self) -> bool {
        self.inner.is_poisoned()
    }

    pub fn clear_poison(&self) {
        self.inner.clear_poison()
    }

    pub fn get_mut(&mut self) -> LockResult<&mut T> {
        self.inner.get_mut()
    }

    pub fn into_inner(self) -> LockResult<T> {
        self.inner.into_inner()
    }

    fn release(&self, write: bool) {
        let me = current_actor();
        {
            let mut st = self.state.lock().unwrap_or_else(|p| p.into_inner());
            if write {
                st.writer = None;
            } else if let Some(pos) = st.readers.iter().rposition(|r| *r == me) {
                st.readers.remove(pos);
            } else {
                st.readers.pop();
            }
        }
        event(
            self.id,
            if write { LockEventKind::WriteReleased } else { LockEventKind::ReadReleased },
        );
        if std::thread::panicking() {
            // never enter the scheduler while unwinding
            return;
        }
        if let Some(gate) = gate() {
            let g = gate.mutex.lock().unwrap();
            gate.cv.notify_all();
            drop(g);
        }
    }
}

impl<T> From<T> for RwLock<T> {
    fn from(value: T) -> Self {
        RwLock::new(value)
    }
}

impl<T: Default> Default for RwLock<T> {
    fn default() -> Self {
        RwLock::new(T::default())
    }
}

impl<T: std::fmt::Debug> std::fmt::Debug for RwLock<T> {
    fn fmt(&self, f: &mut std::fmt::Formatter<'_>) -> std::fmt::Result {
        f.debug_struct("RwLock").field("id", &self.id).finish_non_exhaustive()
    }
}

pub struct RwLockReadGuard<'a, T> {
    lock: &'a RwLock<T>,
    inner: Option<std::sync::RwLockReadGuard<'a, T>>,
    sim: bool,
}

impl<T> Deref for RwLockReadGuard<'_, T> {
    type Target = T;
    fn deref(&self) -> &T {
        self.inner.as_ref().unwrap()
    }
}

impl<T> Drop for RwLockReadGuard<'_, T> {
    fn drop(&mut self) {
        self.inner.take();
        if self.sim {
            self.lock.release(false);
        }
    }
}

pub struct RwLockWriteGuard<'a, T> {
    lock: &'a RwLock<T>,
    inner: Option<std::sync::RwLockWriteGuard<'a, T>>,
    sim: bool,
}

impl<T> Deref for RwLockWriteGuard<'_, T> {
    type Target = T;
    fn deref(&self) -> &T {
        self.inner.as_ref().unwrap()
    }
}

impl<T> DerefMut for RwLockWriteGuard<'_, T> {
    fn deref_mut(&mut self) -> &mut T {
        self.inner.as_mut().unwrap()
    }
}

impl<T> Drop for RwLockWriteGuard<'_, T> {
    fn drop(&mut self) {
        self.inner.take();
        if self.sim {
            self.lock.release(true);
        }
    }
}
