//! The simulated operating system owned by the simulator: an in-memory file tree, a scripted
//! stdin, a captured stdout, an explicit fault plan keyed by seam-call index and a call log.
//!
//! One `SimOs` is installed per OS thread (one simulated run = one fresh OS thread).
use std::cell::RefCell;
use std::collections::BTreeMap;
use std::io;
use std::path::PathBuf;

#[derive(Clone, Debug, PartialEq, Eq)]
pub enum Node {
    File(Vec<u8>),
    Dir,
}

/// What an injected fault does.
#[derive(Clone, Copy, Debug, PartialEq, Eq)]
pub struct FaultSpec {
    /// errno the call fails with
    pub errno: i32,
    /// 0: fail before any effect. 1: fail after a partial effect (only meaningful for the
    /// non-atomic calls `write`, `copy`, `remove_dir_all`, `create_dir_all`, stdin `read_line`).
    pub torn: u8,
}

#[derive(Clone, Debug, PartialEq, Eq)]
pub enum StdinEvent {
    /// bytes of one line (should include the trailing b'\n' unless it is the last line before EOF)
    Line(Vec<u8>),
    Eof,
    /// read fails with this errno
    Err(i32),
}

#[derive(Clone, Debug, PartialEq, Eq)]
pub enum CallResult {
    /// rendered success value ("()" / content / byte count)
    Ok(String),
    /// (ErrorKind as i64, io::Error::to_string())
    Err(i64, String),
}

#[derive(Clone, Debug, PartialEq, Eq)]
pub struct Call {
    pub idx: usize,
    pub actor: usize,
    pub op: &'static str,
    pub args: Vec<String>,
    pub result: CallResult,
    /// the failure was injected by the fault plan (as opposed to produced by the model's state)
    pub injected: bool,
    /// an injected fault left a partial effect behind
    pub torn: bool,
}

#[derive(Clone, Debug)]
pub enum Mode {
    /// in-memory model
    Sim,
    /// real `std::fs` below `root` (used to validate the model against the real thing)
    Real { root: PathBuf },
}

#[derive(Clone, Debug)]
pub struct SimOs {
    pub mode: Mode,
    /// normalised path -> node; the root directory "" is implicit
    pub nodes: BTreeMap<String, Node>,
    pub faults: BTreeMap<usize, FaultSpec>,
    /// regular files that cannot be opened for writing (EACCES); reading them is fine. A STATE of
    /// the file system, not a fault: it holds for every call of the run. Only used by scenarios
    /// that neither rename nor remove anything (the flag is kept by path).
    pub readonly: std::collections::BTreeSet<String>,
    pub stdin: Vec<StdinEvent>,
    pub stdin_pos: usize,
    pub stdout: Vec<(usize, String)>,
    pub calls: Vec<Call>,
    pub next_idx: usize,
}

impl Default for SimOs {
    fn default() -> Self {
        Self::new()
    }
}

impl SimOs {
    pub fn new() -> Self {
        SimOs {
            mode: Mode::Sim,
            nodes: BTreeMap::new(),
            faults: BTreeMap::new(),
            readonly: Default::default(),
            stdin: Vec::new(),
            stdin_pos: 0,
            stdout: Vec::new(),
            calls: Vec::new(),
            next_idx: 0,
        }
    }
    pub fn real(root: PathBuf) -> Self {
        let mut os = Self::new();
        os.mode = Mode::Real { root };
        os
    }
}

thread_local! {
    static OS: RefCell<Option<SimOs>> = const { RefCell::new(None) };
}

/// Installs a simulated OS on the current OS thread (replacing any previous one).
pub fn install(os: SimOs) {
    OS.with(|c| *c.borrow_mut() = Some(os));
}

/// Removes and returns the simulated OS of the current OS thread.
pub fn uninstall() -> Option<SimOs> {
    OS.with(|c| c.borrow_mut().take())
}

pub fn is_installed() -> bool {
    OS.with(|c| c.borrow().is_some())
}

/// Runs `f` on the installed OS; `None` when nothing is installed (pass-through).
pub fn with<R>(f: impl FnOnce(&mut SimOs) -> R) -> Option<R> {
    OS.with(|c| c.borrow_mut().as_mut().map(f))
}

pub(crate) fn actor() -> usize {
    crate::sync::current_actor()
}

/// Seam behind `println!`.
pub fn stdout_line(line: String) {
    let a = actor();
    let mut line = Some(line);
    with(|os| os.stdout.push((a, line.take().unwrap())));
    if let Some(line) = line {
        std::println!("{line}");
    }
}

pub fn errno_error(errno: i32) -> io::Error {
    io::Error::from_raw_os_error(errno)
}

pub fn err_repr(e: &io::Error) -> CallResult {
    CallResult::Err(e.kind() as i64, e.to_string())
}

/// Normalises a path of the simulated FS: strips "./" components and duplicate / trailing
/// slashes. Returns Err(errno) for paths the model does not handle the way Linux does.
pub fn norm(path: &str) -> Result<String, i32> {
    if path.is_empty() {
        return Err(libc::ENOENT);
    }
    if path.as_bytes().contains(&0) {
        return Err(-1); // special-cased by the callers: InvalidInput "NUL byte"
    }
    let mut parts: Vec<&str> = Vec::new();
    for comp in path.split('/') {
        match comp {
            "" | "." => {}
            // resolved lexically (`..` at the root stays at the root); the approximation - `f/..`
            // for a regular file f is the parent here, ENOTDIR on Linux - only concerns paths the
            // import enumeration uses to reach "a directory named without a final component"
            ".." => {
                parts.pop();
            }
            c => parts.push(c),
        }
    }
    Ok(parts.join("/"))
}

/// errno of "this entry does not exist": ENAMETOOLONG if the file system could not even hold
/// such a name, ENOENT otherwise.
pub fn missing_errno(p: &str) -> i32 {
    if p.rsplit('/').next().is_some_and(|c| c.len() > 255) {
        libc::ENAMETOOLONG
    } else {
        libc::ENOENT
    }
}

pub fn nul_error() -> io::Error {
    io::Error::new(
        io::ErrorKind::InvalidInput,
        "file name contained an unexpected NUL byte",
    )
}

pub fn parent(p: &str) -> &str {
    match p.rfind('/') {
        Some(i) => &p[..i],
        None => "",
    }
}

impl SimOs {
    pub fn is_dir(&self, p: &str) -> bool {
        p.is_empty() || matches!(self.nodes.get(p), Some(Node::Dir))
    }
    pub fn is_file(&self, p: &str) -> bool {
        matches!(self.nodes.get(p), Some(Node::File(_)))
    }
    pub fn exists(&self, p: &str) -> bool {
        p.is_empty() || self.nodes.contains_key(p)
    }
    pub fn children(&self, p: &str) -> Vec<String> {
        let prefix = if p.is_empty() {
            String::new()
        } else {
            format!("{p}/")
        };
        self.nodes
            .keys()
            .filter(|k| k.starts_with(&prefix) && !k.is_empty() && k.as_str() != p)
            .cloned()
            .collect()
    }
    /// errno for "walk to the parent directory of `p`": ENOENT if a component is missing, ENOTDIR if
    /// a component is a file. `p` itself is not looked at. ("..": resolved lexically only after the
    /// check that the preceding component is a directory, which is how the kernel behaves for
    /// directories without symlinks.)
    pub fn walk_parent(&self, p: &str) -> Result<(), i32> {
        let par = parent(p);
        if par.is_empty() {
            return Ok(());
        }
        let mut cur = String::new();
        for comp in par.split('/') {
            if !cur.is_empty() {
                cur.push('/');
            }
            cur.push_str(comp);
            match self.nodes.get(&cur) {
                None => return Err(missing_errno(&cur)),
                Some(Node::File(_)) => return Err(libc::ENOTDIR),
                Some(Node::Dir) => {}
            }
        }
        Ok(())
    }

    pub(crate) fn take_fault(&mut self) -> (usize, Option<FaultSpec>) {
        let idx = self.next_idx;
        self.next_idx += 1;
        (idx, self.faults.get(&idx).copied())
    }

    pub(crate) fn log(
        &mut self,
        idx: usize,
        op: &'static str,
        args: Vec<String>,
        result: CallResult,
        injected: bool,
        torn: bool,
    ) {
        self.calls.push(Call {
            idx,
            actor: actor(),
            op,
            args,
            result,
            injected,
            torn,
        });
    }
}
