//! Drop-in for the nine `std::fs` functions SimpleSL uses (`stdlib::fs`, `import`).
//!
//! Pass-through to `std::fs` when no `SimOs` is installed on the thread. With a `SimOs` in
//! `Mode::Sim` the call is answered by the in-memory model (natural, state-dependent errors carry
//! the same errno - hence the same `ErrorKind` and message - Linux would give) unless the fault
//! plan holds an entry for this call index. With `Mode::Real` the call goes to `std::fs` below a
//! scratch root and is logged the same way, which is how the model is validated.
// Everything else of `std::fs` passes through to the real thing, so that code under test that
// starts using `fs::File`, `fs::OpenOptions`, `fs::metadata`, `fs::read_dir` ... still compiles
// with the guard on (such calls are not simulated: they are what the unhooked runs in a real
// directory are for). The functions defined below shadow the glob import.
pub use std::fs::*;
use crate::os::{self, err_repr, errno_error, missing_errno, norm, nul_error, CallResult, FaultSpec, Mode, Node, SimOs};
use std::io;
use std::path::{Path, PathBuf};

fn p2s<P: AsRef<Path>>(p: &P) -> String {
    p.as_ref().to_string_lossy().into_owned()
}

enum Route {
    Pass,
    Real(PathBuf, usize, Option<FaultSpec>),
    Sim(usize, Option<FaultSpec>),
}

fn route() -> Route {
    os::with(|os| {
        let (idx, fault) = os.take_fault();
        match &os.mode {
            Mode::Sim => Route::Sim(idx, fault),
            Mode::Real { root } => Route::Real(root.clone(), idx, fault),
        }
    })
    .unwrap_or(Route::Pass)
}

fn finish<T>(
    idx: usize,
    op: &'static str,
    args: Vec<String>,
    res: io::Result<T>,
    repr: impl FnOnce(&T) -> String,
    injected: bool,
    torn: bool,
) -> io::Result<T> {
    let r = match &res {
        Ok(v) => CallResult::Ok(repr(v)),
        Err(e) => err_repr(e),
    };
    os::with(|os| os.log(idx, op, args, r, injected, torn));
    res
}

fn npath(path: &str) -> io::Result<String> {
    match norm(path) {
        Ok(p) => Ok(p),
        Err(-1) => Err(nul_error()),
        Err(e) => Err(errno_error(e)),
    }
}

fn e<T>(errno: i32) -> io::Result<T> {
    Err(errno_error(errno))
}

fn real_join(root: &Path, p: &str) -> PathBuf {
    // keep "" -> "" semantics (ENOENT) and NUL behaviour of the real call
    if p.is_empty() || p.as_bytes().contains(&0) {
        return PathBuf::from(p);
    }
    // never leave the scratch root: `..` components are dropped (the simulated FS resolves them
    // lexically and the root is its own parent), so a call on the REAL file system can only touch
    // what lies below `root`
    let inside: Vec<&str> = p.split('/').filter(|c| !c.is_empty() && *c != "..").collect();
    if inside.is_empty() {
        return root.join(".");
    }
    let mut rel = inside.join("/");
    if p.ends_with('/') {
        rel.push('/');
    }
    root.join(rel)
}

macro_rules! dispatch {
    ($op:literal, [$($arg:expr),*], $repr:expr, pass: $pass:expr, real: |$root:ident| $real:expr, sim: |$os:ident, $fault:ident| $sim:expr) => {{
        let args: Vec<String> = vec![$($arg.clone()),*];
        match route() {
            Route::Pass => $pass,
            Route::Real($root, idx, fault) => {
                if let Some(f) = fault {
                    return finish(idx, $op, args, Err(errno_error(f.errno)), $repr, true, false);
                }
                let res = $real;
                finish(idx, $op, args, res, $repr, false, false)
            }
            Route::Sim(idx, $fault) => {
                let injected = $fault.is_some();
                let (res, torn) = os::with(|$os: &mut SimOs| $sim).unwrap();
                finish(idx, $op, args, res, $repr, injected, torn)
            }
        }
    }};
}

pub fn read_to_string<P: AsRef<Path>>(path: P) -> io::Result<String> {
    let p = p2s(&path);
    dispatch!("read_to_string", [p], |s: &String| s.clone(),
        pass: std::fs::read_to_string(path),
        real: |root| std::fs::read_to_string(real_join(&root, &p)),
        sim: |os, fault| (sim_read(os, &p, fault), false))
}

fn sim_read(os: &mut SimOs, p: &str, fault: Option<FaultSpec>) -> io::Result<String> {
    if let Some(f) = fault {
        return e(f.errno);
    }
    // "f/", "f/." , "f//": the spelling demands a directory; on a regular file that is ENOTDIR
    let demands_dir = p.ends_with('/') || p.ends_with("/.");
    let p = npath(p)?;
    if demands_dir && matches!(os.nodes.get(&p), Some(Node::File(_))) {
        return e(libc::ENOTDIR);
    }
    os.walk_parent(&p).or_else(e)?;
    if p.is_empty() {
        return e(libc::EISDIR);
    }
    match os.nodes.get(&p) {
        None => e(missing_errno(&p)),
        Some(Node::Dir) => e(libc::EISDIR),
        Some(Node::File(b)) => String::from_utf8(b.clone()).map_err(|_| {
            io::Error::new(
                io::ErrorKind::InvalidData,
                "stream did not contain valid UTF-8",
            )
        }),
    }
}

pub fn write<P: AsRef<Path>, C: AsRef<[u8]>>(path: P, contents: C) -> io::Result<()> {
    let p = p2s(&path);
    let c = String::from_utf8_lossy(contents.as_ref()).into_owned();
    let bytes = contents.as_ref().to_vec();
    dispatch!("write", [p, c], |_: &()| "()".to_string(),
        pass: std::fs::write(path, contents),
        real: |root| std::fs::write(real_join(&root, &p), &bytes),
        sim: |os, fault| sim_write(os, &p, &bytes, fault))
}

fn sim_write(os: &mut SimOs, p: &str, bytes: &[u8], fault: Option<FaultSpec>) -> (io::Result<()>, bool) {
    if let Some(f) = fault {
        if f.torn == 0 {
            return (e(f.errno), false);
        }
    }
    let check = (|| {
        let p = npath(p)?;
        os.walk_parent(&p).or_else(e)?;
        if os.is_dir(&p) {
            return e(libc::EISDIR);
        }
        if !os.exists(&p) && missing_errno(&p) != libc::ENOENT {
            return e(missing_errno(&p));
        }
        if os.readonly.contains(&p) && os.is_file(&p) {
            return e(libc::EACCES);
        }
        Ok(p)
    })();
    let p = match check {
        Ok(p) => p,
        Err(err) => match fault {
            // the open itself would have failed: the injected errno wins, no effect
            Some(f) => return (e(f.errno), false),
            None => return (Err(err), false),
        },
    };
    if let Some(f) = fault {
        // torn write: file created / truncated, only a prefix of the contents reached it
        let keep = bytes.len() / 2;
        os.nodes.insert(p, Node::File(bytes[..keep].to_vec()));
        return (e(f.errno), true);
    }
    os.nodes.insert(p, Node::File(bytes.to_vec()));
    (Ok(()), false)
}

pub fn copy<P: AsRef<Path>, Q: AsRef<Path>>(from: P, to: Q) -> io::Result<u64> {
    let f = p2s(&from);
    let t = p2s(&to);
    dispatch!("copy", [f, t], |n: &u64| n.to_string(),
        pass: std::fs::copy(from, to),
        real: |root| std::fs::copy(real_join(&root, &f), real_join(&root, &t)),
        sim: |os, fault| sim_copy(os, &f, &t, fault))
}

fn sim_copy(os: &mut SimOs, from: &str, to: &str, fault: Option<FaultSpec>) -> (io::Result<u64>, bool) {
    if let Some(f) = fault {
        if f.torn == 0 {
            return (e(f.errno), false);
        }
    }
    let check = (|| {
        let from = npath(from)?;
        os.walk_parent(&from).or_else(e)?;
        let bytes = match os.nodes.get(&from) {
            None if from.is_empty() => None,
            None => return e(missing_errno(&from)),
            Some(Node::Dir) => None,
            Some(Node::File(b)) => Some(b.clone()),
        };
        let Some(bytes) = bytes else {
            return Err(io::Error::new(
                io::ErrorKind::InvalidInput,
                "the source path is neither a regular file nor a symlink to a regular file",
            ));
        };
        let to = npath(to)?;
        os.walk_parent(&to).or_else(e)?;
        if os.is_dir(&to) {
            return e(libc::EISDIR);
        }
        if !os.exists(&to) && missing_errno(&to) != libc::ENOENT {
            return e(missing_errno(&to));
        }
        if os.readonly.contains(&to) && os.is_file(&to) {
            return e(libc::EACCES);
        }
        Ok((from, to, bytes))
    })();
    let (from, to, bytes) = match check {
        Ok(v) => v,
        Err(err) => match fault {
            Some(f) => return (e(f.errno), false),
            None => return (Err(err), false),
        },
    };
    if let Some(f) = fault {
        let keep = if from == to { 0 } else { bytes.len() / 2 };
        os.nodes.insert(to, Node::File(bytes[..keep].to_vec()));
        return (e(f.errno), true);
    }
    if from == to {
        // std::fs::copy opens the target with O_TRUNC: copying a file onto itself empties it
        os.nodes.insert(to, Node::File(Vec::new()));
        return (Ok(0), false);
    }
    let n = bytes.len() as u64;
    os.nodes.insert(to, Node::File(bytes));
    (Ok(n), false)
}

pub fn remove_file<P: AsRef<Path>>(path: P) -> io::Result<()> {
    let p = p2s(&path);
    dispatch!("remove_file", [p], |_: &()| "()".to_string(),
        pass: std::fs::remove_file(path),
        real: |root| std::fs::remove_file(real_join(&root, &p)),
        sim: |os, fault| (sim_remove_file(os, &p, fault), false))
}

fn sim_remove_file(os: &mut SimOs, p: &str, fault: Option<FaultSpec>) -> io::Result<()> {
    if let Some(f) = fault {
        return e(f.errno);
    }
    let p = npath(p)?;
    os.walk_parent(&p).or_else(e)?;
    if os.is_dir(&p) {
        return e(libc::EISDIR);
    }
    match os.nodes.remove(&p) {
        None => e(missing_errno(&p)),
        Some(_) => Ok(()),
    }
}

pub fn remove_dir<P: AsRef<Path>>(path: P) -> io::Result<()> {
    let p = p2s(&path);
    dispatch!("remove_dir", [p], |_: &()| "()".to_string(),
        pass: std::fs::remove_dir(path),
        real: |root| std::fs::remove_dir(real_join(&root, &p)),
        sim: |os, fault| (sim_remove_dir(os, &p, fault), false))
}

fn sim_remove_dir(os: &mut SimOs, p: &str, fault: Option<FaultSpec>) -> io::Result<()> {
    if let Some(f) = fault {
        return e(f.errno);
    }
    let p = npath(p)?;
    os.walk_parent(&p).or_else(e)?;
    if p.is_empty() {
        return e(libc::EBUSY);
    }
    match os.nodes.get(&p) {
        None => e(missing_errno(&p)),
        Some(Node::File(_)) => e(libc::ENOTDIR),
        Some(Node::Dir) => {
            if !os.children(&p).is_empty() {
                return e(libc::ENOTEMPTY);
            }
            os.nodes.remove(&p);
            Ok(())
        }
    }
}

pub fn remove_dir_all<P: AsRef<Path>>(path: P) -> io::Result<()> {
    let p = p2s(&path);
    dispatch!("remove_dir_all", [p], |_: &()| "()".to_string(),
        pass: std::fs::remove_dir_all(path),
        real: |root| std::fs::remove_dir_all(real_join(&root, &p)),
        sim: |os, fault| sim_remove_dir_all(os, &p, fault))
}

fn sim_remove_dir_all(os: &mut SimOs, p: &str, fault: Option<FaultSpec>) -> (io::Result<()>, bool) {
    if let Some(f) = fault {
        if f.torn == 0 {
            return (e(f.errno), false);
        }
    }
    let check = (|| {
        let p = npath(p)?;
        os.walk_parent(&p).or_else(e)?;
        if p.is_empty() {
            return e(libc::EBUSY);
        }
        match os.nodes.get(&p) {
            None => e(missing_errno(&p)),
            Some(Node::File(_)) => e(libc::ENOTDIR),
            Some(Node::Dir) => Ok(p),
        }
    })();
    let p = match check {
        Ok(p) => p,
        Err(err) => match fault {
            Some(f) => return (e(f.errno), false),
            None => return (Err(err), false),
        },
    };
    let kids = os.children(&p);
    if let Some(f) = fault {
        // torn: the deepest half of the entries is gone, the directory itself survives
        let mut kids = kids;
        kids.sort_by(|a, b| b.len().cmp(&a.len()).then(a.cmp(b)));
        let n = kids.len().div_ceil(2);
        for k in kids.iter().take(n) {
            // only remove entries that have no surviving children
            if os.children(k).is_empty() {
                os.nodes.remove(k);
            }
        }
        return (e(f.errno), n > 0);
    }
    for k in kids {
        os.nodes.remove(&k);
    }
    os.nodes.remove(&p);
    (Ok(()), false)
}

pub fn create_dir<P: AsRef<Path>>(path: P) -> io::Result<()> {
    let p = p2s(&path);
    dispatch!("create_dir", [p], |_: &()| "()".to_string(),
        pass: std::fs::create_dir(path),
        real: |root| std::fs::create_dir(real_join(&root, &p)),
        sim: |os, fault| (sim_create_dir(os, &p, fault), false))
}

fn sim_create_dir(os: &mut SimOs, p: &str, fault: Option<FaultSpec>) -> io::Result<()> {
    if let Some(f) = fault {
        return e(f.errno);
    }
    let p = npath(p)?;
    os.walk_parent(&p).or_else(e)?;
    if os.exists(&p) {
        return e(libc::EEXIST);
    }
    if missing_errno(&p) != libc::ENOENT {
        return e(missing_errno(&p));
    }
    os.nodes.insert(p, Node::Dir);
    Ok(())
}

pub fn create_dir_all<P: AsRef<Path>>(path: P) -> io::Result<()> {
    let p = p2s(&path);
    dispatch!("create_dir_all", [p], |_: &()| "()".to_string(),
        pass: std::fs::create_dir_all(path),
        real: |root| {
            if p.is_empty() { std::fs::create_dir_all("") } else { std::fs::create_dir_all(real_join(&root, &p)) }
        },
        sim: |os, fault| sim_create_dir_all(os, &p, fault))
}

fn sim_create_dir_all(os: &mut SimOs, p: &str, fault: Option<FaultSpec>) -> (io::Result<()>, bool) {
    if let Some(f) = fault {
        if f.torn == 0 {
            return (e(f.errno), false);
        }
    }
    if p.is_empty() {
        // std special-cases the empty path
        return match fault {
            Some(f) => (e(f.errno), false),
            None => (Ok(()), false),
        };
    }
    let p = match npath(p) {
        Ok(p) => p,
        Err(err) => {
            return match fault {
                Some(f) => (e(f.errno), false),
                None => (Err(err), false),
            }
        }
    };
    let comps: Vec<&str> = if p.is_empty() { vec![] } else { p.split('/').collect() };
    let mut cur = String::new();
    let mut created = 0;
    for (i, comp) in comps.iter().enumerate() {
        if !cur.is_empty() {
            cur.push('/');
        }
        cur.push_str(comp);
        match os.nodes.get(&cur) {
            Some(Node::Dir) => {}
            Some(Node::File(_)) => {
                let errno = if i + 1 == comps.len() { libc::EEXIST } else { libc::ENOTDIR };
                return match fault {
                    Some(f) => (e(f.errno), false),
                    None => (e(errno), false),
                };
            }
            None => {
                if missing_errno(&cur) != libc::ENOENT {
                    return match fault {
                        Some(f) => (e(f.errno), created > 0),
                        None => (e(missing_errno(&cur)), false),
                    };
                }
                if let Some(f) = fault {
                    if created == 1 {
                        // torn: exactly one missing ancestor was created before the failure
                        return (e(f.errno), true);
                    }
                }
                os.nodes.insert(cur.clone(), Node::Dir);
                created += 1;
            }
        }
    }
    match fault {
        // everything needed was already there or a single directory was made: report the fault
        // with whatever was created left behind
        Some(f) => (e(f.errno), created > 0),
        None => (Ok(()), false),
    }
}

pub fn rename<P: AsRef<Path>, Q: AsRef<Path>>(from: P, to: Q) -> io::Result<()> {
    let f = p2s(&from);
    let t = p2s(&to);
    dispatch!("rename", [f, t], |_: &()| "()".to_string(),
        pass: std::fs::rename(from, to),
        real: |root| std::fs::rename(real_join(&root, &f), real_join(&root, &t)),
        sim: |os, fault| (sim_rename(os, &f, &t, fault), false))
}

fn sim_rename(os: &mut SimOs, from: &str, to: &str, fault: Option<FaultSpec>) -> io::Result<()> {
    if let Some(f) = fault {
        return e(f.errno);
    }
    // both paths become C strings before the system call
    if from.as_bytes().contains(&0) || to.as_bytes().contains(&0) {
        return Err(nul_error());
    }
    // the kernel resolves the parent of `from`, then the parent of `to`, then the entries
    let from = npath(from)?;
    os.walk_parent(&from).or_else(e)?;
    let to = npath(to)?;
    os.walk_parent(&to).or_else(e)?;
    if from.is_empty() || to.is_empty() {
        return e(libc::EBUSY);
    }
    let Some(src) = os.nodes.get(&from).cloned() else {
        return e(missing_errno(&from));
    };
    if from == to {
        return Ok(());
    }
    let src_is_dir = src == Node::Dir;
    if src_is_dir && to.starts_with(&format!("{from}/")) {
        return e(libc::EINVAL);
    }
    if from.starts_with(&format!("{to}/")) {
        // the target is an ancestor of the source: it cannot be empty
        return e(libc::ENOTEMPTY);
    }
    match os.nodes.get(&to) {
        None => {
            if missing_errno(&to) != libc::ENOENT {
                return e(missing_errno(&to));
            }
        }
        Some(Node::File(_)) => {
            if src_is_dir {
                return e(libc::ENOTDIR);
            }
        }
        Some(Node::Dir) => {
            if !src_is_dir {
                return e(libc::EISDIR);
            }
            if !os.children(&to).is_empty() {
                return e(libc::ENOTEMPTY);
            }
        }
    }
    // move
    let kids = os.children(&from);
    os.nodes.remove(&from);
    os.nodes.insert(to.clone(), src);
    for k in kids {
        let node = os.nodes.remove(&k).unwrap();
        let suffix = &k[from.len()..];
        os.nodes.insert(format!("{to}{suffix}"), node);
    }
    Ok(())
}

/// The documented behaviour of one std::fs call applied to a model state, without faults and
/// without logging (the harness uses it to predict result and post-state of a library call).
pub fn model_apply(os: &mut SimOs, op: &str, args: &[String]) -> io::Result<String> {
    let a = |i: usize| args.get(i).map(|s| s.as_str()).unwrap_or("");
    match op {
        "read_to_string" => sim_read(os, a(0), None),
        "write" => sim_write(os, a(0), a(1).as_bytes(), None).0.map(|_| "()".to_string()),
        "copy" => sim_copy(os, a(0), a(1), None).0.map(|n| n.to_string()),
        "remove_file" => sim_remove_file(os, a(0), None).map(|_| "()".to_string()),
        "remove_dir" => sim_remove_dir(os, a(0), None).map(|_| "()".to_string()),
        "remove_dir_all" => sim_remove_dir_all(os, a(0), None).0.map(|_| "()".to_string()),
        "create_dir" => sim_create_dir(os, a(0), None).map(|_| "()".to_string()),
        "create_dir_all" => sim_create_dir_all(os, a(0), None).0.map(|_| "()".to_string()),
        "rename" => sim_rename(os, a(0), a(1), None).map(|_| "()".to_string()),
        other => Err(io::Error::other(format!("model_apply: unknown op {other}"))),
    }
}

/// `std::fs::read` (not used by the pinned tree; provided so that a change to a byte-level read
/// still runs under simulation).
pub fn read<P: AsRef<Path>>(path: P) -> io::Result<Vec<u8>> {
    let p = p2s(&path);
    dispatch!("read", [p], |b: &Vec<u8>| String::from_utf8_lossy(b).into_owned(),
        pass: std::fs::read(path),
        real: |root| std::fs::read(real_join(&root, &p)),
        sim: |os, fault| (sim_read_bytes(os, &p, fault), false))
}

fn sim_read_bytes(os: &mut SimOs, p: &str, fault: Option<FaultSpec>) -> io::Result<Vec<u8>> {
    if let Some(f) = fault {
        return e(f.errno);
    }
    // "f/", "f/." , "f//": the spelling demands a directory; on a regular file that is ENOTDIR
    let demands_dir = p.ends_with('/') || p.ends_with("/.");
    let p = npath(p)?;
    if demands_dir && matches!(os.nodes.get(&p), Some(Node::File(_))) {
        return e(libc::ENOTDIR);
    }
    os.walk_parent(&p).or_else(e)?;
    if p.is_empty() {
        return e(libc::EISDIR);
    }
    match os.nodes.get(&p) {
        None => e(missing_errno(&p)),
        Some(Node::Dir) => e(libc::EISDIR),
        Some(Node::File(b)) => Ok(b.clone()),
    }
}

/// `std::fs::exists`
pub fn exists<P: AsRef<Path>>(path: P) -> io::Result<bool> {
    let p = p2s(&path);
    dispatch!("exists", [p], |b: &bool| b.to_string(),
        pass: std::fs::exists(path),
        real: |root| std::fs::exists(real_join(&root, &p)),
        sim: |os, fault| (
            match fault {
                Some(f) => e(f.errno),
                None => match npath(&p) {
                    Ok(n) => Ok(os.walk_parent(&n).is_ok() && os.exists(&n)),
                    Err(_) => Ok(false),
                },
            },
            false
        ))
}

// ---------------------------------------------------------------------------------------------
// `fs::File` / `fs::OpenOptions` over the simulated file system
//
// Code under test that writes through `OpenOptions::new().write(true).create(true).truncate(true)
// .open(p)?.write_all(..)` or reads through `File::open(p)?.read_to_string(..)` must meet the same
// simulated tree, and every step (open, each write, each read, sync) is an OS call of its own in
// the fault plan - so "the second of two calls fails" is reachable for such code too. Without a
// simulated OS everything passes through to std.

#[derive(Clone, Debug, Default)]
pub struct OpenOptions {
    read: bool,
    write: bool,
    append: bool,
    truncate: bool,
    create: bool,
    create_new: bool,
}

macro_rules! flag {
    ($name:ident) => {
        pub fn $name(&mut self, v: bool) -> &mut Self {
            self.$name = v;
            self
        }
    };
}

impl OpenOptions {
    pub fn new() -> Self {
        Self::default()
    }
    flag!(read);
    flag!(write);
    flag!(append);
    flag!(truncate);
    flag!(create);
    flag!(create_new);

    fn std_options(&self) -> std::fs::OpenOptions {
        let mut o = std::fs::OpenOptions::new();
        o.read(self.read).write(self.write).append(self.append).truncate(self.truncate).create(self.create).create_new(self.create_new);
        o
    }

    pub fn open<P: AsRef<Path>>(&self, path: P) -> io::Result<File> {
        let p = p2s(&path);
        let flags = format!("r{}w{}a{}t{}c{}n{}", self.read as u8, self.write as u8, self.append as u8, self.truncate as u8, self.create as u8, self.create_new as u8);
        match route() {
            Route::Pass => self.std_options().open(path).map(|f| File(Inner::Real(f))),
            Route::Real(root, idx, fault) => {
                if let Some(f) = fault {
                    return finish(idx, "open", vec![p, flags], Err(errno_error(f.errno)), |_: &File| "fd".to_string(), true, false);
                }
                let res = self.std_options().open(real_join(&root, &p)).map(|f| File(Inner::Real(f)));
                finish(idx, "open", vec![p, flags], res, |_: &File| "fd".to_string(), false, false)
            }
            Route::Sim(idx, fault) => {
                let injected = fault.is_some();
                let writes = self.write || self.append;
                let res = os::with(|os: &mut SimOs| -> io::Result<File> {
                    if let Some(f) = fault {
                        return e(f.errno);
                    }
                    if !self.read && !writes {
                        return e(libc::EINVAL);
                    }
                    let demands_dir = p.ends_with('/') || p.ends_with("/.");
                    let np = npath(&p)?;
                    if demands_dir && matches!(os.nodes.get(&np), Some(Node::File(_))) {
                        return e(libc::ENOTDIR);
                    }
                    os.walk_parent(&np).or_else(e)?;
                    if os.is_dir(&np) {
                        if writes || self.create || self.create_new {
                            return e(if self.create_new { libc::EEXIST } else { libc::EISDIR });
                        }
                        // a directory opens for reading; the read fails
                        return Ok(File(Inner::Sim { path: np, pos: 0, read: true, write: false, append: false }));
                    }
                    let exists = os.exists(&np);
                    if exists && self.create_new {
                        return e(libc::EEXIST);
                    }
                    if !exists {
                        if missing_errno(&np) != libc::ENOENT {
                            return e(missing_errno(&np));
                        }
                        if !(self.create || self.create_new) || !writes {
                            return e(libc::ENOENT);
                        }
                        os.nodes.insert(np.clone(), Node::File(Vec::new()));
                    } else if writes && os.readonly.contains(&np) {
                        return e(libc::EACCES);
                    }
                    if self.truncate && writes {
                        os.nodes.insert(np.clone(), Node::File(Vec::new()));
                    }
                    Ok(File(Inner::Sim { path: np, pos: 0, read: self.read, write: writes, append: self.append }))
                })
                .unwrap();
                finish(idx, "open", vec![p, flags], res, |_: &File| "fd".to_string(), injected, false)
            }
        }
    }
}

enum Inner {
    Real(std::fs::File),
    Sim { path: String, pos: usize, read: bool, write: bool, append: bool },
}

pub struct File(Inner);

impl std::fmt::Debug for File {
    fn fmt(&self, f: &mut std::fmt::Formatter<'_>) -> std::fmt::Result {
        match &self.0 {
            Inner::Real(r) => r.fmt(f),
            Inner::Sim { path, .. } => write!(f, "File(sim:{path})"),
        }
    }
}

impl File {
    pub fn open<P: AsRef<Path>>(path: P) -> io::Result<File> {
        OpenOptions::new().read(true).open(path)
    }
    pub fn create<P: AsRef<Path>>(path: P) -> io::Result<File> {
        OpenOptions::new().write(true).create(true).truncate(true).open(path)
    }
    pub fn create_new<P: AsRef<Path>>(path: P) -> io::Result<File> {
        OpenOptions::new().read(true).write(true).create_new(true).open(path)
    }
    pub fn options() -> OpenOptions {
        OpenOptions::new()
    }
    fn sync(&self, op: &'static str) -> io::Result<()> {
        match &self.0 {
            Inner::Real(f) => f.sync_all(),
            Inner::Sim { path, .. } => {
                let (idx, fault) = os::with(|os| os.take_fault()).unwrap_or((0, None));
                let res = match fault {
                    Some(f) => e(f.errno),
                    None => Ok(()),
                };
                finish(idx, op, vec![path.clone()], res, |_: &()| "()".to_string(), fault.is_some(), false)
            }
        }
    }
    pub fn sync_all(&self) -> io::Result<()> {
        self.sync("fsync")
    }
    pub fn sync_data(&self) -> io::Result<()> {
        self.sync("fdatasync")
    }
    pub fn set_len(&self, size: u64) -> io::Result<()> {
        match &self.0 {
            Inner::Real(f) => f.set_len(size),
            Inner::Sim { path, write, .. } => {
                let (idx, fault) = os::with(|os| os.take_fault()).unwrap_or((0, None));
                let res = os::with(|os: &mut SimOs| -> io::Result<()> {
                    if let Some(f) = fault {
                        return e(f.errno);
                    }
                    if !*write {
                        return e(libc::EINVAL);
                    }
                    if let Some(Node::File(b)) = os.nodes.get_mut(path) {
                        b.resize(size as usize, 0);
                    }
                    Ok(())
                })
                .unwrap_or(Ok(()));
                finish(idx, "ftruncate", vec![path.clone(), size.to_string()], res, |_: &()| "()".to_string(), fault.is_some(), false)
            }
        }
    }
    pub fn metadata(&self) -> io::Result<std::fs::Metadata> {
        match &self.0 {
            Inner::Real(f) => f.metadata(),
            Inner::Sim { .. } => Err(io::Error::new(io::ErrorKind::Unsupported, "metadata of a simulated file")),
        }
    }
    fn sim_read(&mut self, out: &mut [u8]) -> io::Result<usize> {
        let Inner::Sim { path, pos, read, .. } = &mut self.0 else { unreachable!() };
        let (idx, fault) = os::with(|os| os.take_fault()).unwrap_or((0, None));
        let res = os::with(|os: &mut SimOs| -> io::Result<usize> {
            if let Some(f) = fault {
                return e(f.errno);
            }
            if !*read {
                return e(libc::EBADF);
            }
            match os.nodes.get(path.as_str()) {
                Some(Node::Dir) => e(libc::EISDIR),
                None if path.is_empty() => e(libc::EISDIR),
                None => Ok(0),
                Some(Node::File(b)) => {
                    let n = b.len().saturating_sub(*pos).min(out.len());
                    out[..n].copy_from_slice(&b[*pos..*pos + n]);
                    *pos += n;
                    Ok(n)
                }
            }
        })
        .unwrap_or(Ok(0));
        let shown = res.as_ref().map(|n| String::from_utf8_lossy(&out[..*n]).into_owned()).unwrap_or_default();
        finish(idx, "file_read", vec![path.clone()], res, move |_: &usize| shown, fault.is_some(), false)
    }
    fn sim_write(&mut self, data: &[u8]) -> io::Result<usize> {
        let Inner::Sim { path, pos, write, append, .. } = &mut self.0 else { unreachable!() };
        let (idx, fault) = os::with(|os| os.take_fault()).unwrap_or((0, None));
        let mut torn = false;
        let res = os::with(|os: &mut SimOs| -> io::Result<usize> {
            let take = match fault {
                Some(f) if f.torn == 0 => return e(f.errno),
                // torn: half of the buffer reaches the file, then the call fails
                Some(_) => data.len() / 2,
                None => data.len(),
            };
            if !*write {
                return e(libc::EBADF);
            }
            if let Some(Node::File(b)) = os.nodes.get_mut(path.as_str()) {
                if *append {
                    *pos = b.len();
                }
                if b.len() < *pos {
                    b.resize(*pos, 0);
                }
                let end = *pos + take;
                if b.len() < end {
                    b.resize(end, 0);
                }
                b[*pos..end].copy_from_slice(&data[..take]);
                *pos = end;
            }
            match fault {
                Some(f) => {
                    torn = take > 0;
                    e(f.errno)
                }
                None => Ok(take),
            }
        })
        .unwrap_or(Ok(data.len()));
        finish(idx, "file_write", vec![path.clone(), String::from_utf8_lossy(data).into_owned()], res, |n: &usize| n.to_string(), fault.is_some(), torn)
    }
}

impl io::Read for File {
    fn read(&mut self, out: &mut [u8]) -> io::Result<usize> {
        match &mut self.0 {
            Inner::Real(f) => f.read(out),
            Inner::Sim { .. } => self.sim_read(out),
        }
    }
}

impl io::Write for File {
    fn write(&mut self, data: &[u8]) -> io::Result<usize> {
        match &mut self.0 {
            Inner::Real(f) => f.write(data),
            Inner::Sim { .. } => self.sim_write(data),
        }
    }
    fn flush(&mut self) -> io::Result<()> {
        match &mut self.0 {
            Inner::Real(f) => f.flush(),
            Inner::Sim { .. } => Ok(()),
        }
    }
}

impl io::Seek for File {
    fn seek(&mut self, to: io::SeekFrom) -> io::Result<u64> {
        match &mut self.0 {
            Inner::Real(f) => f.seek(to),
            Inner::Sim { path, pos, .. } => {
                let len = os::with(|os| match os.nodes.get(path.as_str()) {
                    Some(Node::File(b)) => b.len(),
                    _ => 0,
                })
                .unwrap_or(0) as i64;
                let new = match to {
                    io::SeekFrom::Start(n) => n as i64,
                    io::SeekFrom::End(d) => len + d,
                    io::SeekFrom::Current(d) => *pos as i64 + d,
                };
                if new < 0 {
                    return e(libc::EINVAL);
                }
                *pos = new as usize;
                Ok(new as u64)
            }
        }
    }
}
