//! Seams for the deterministic simulation of mpolosak/SimpleSL.
//!
//! The crate under test imports these names instead of the std ones when it is compiled with
//! `--cfg simplesl_verif` (see MANIFEST.json "hooks"):
//!
//! * [`sync::RwLock`]  replaces `std::sync::RwLock` inside `variable::Mut`
//! * [`fs`]            replaces `std::fs` inside `stdlib::fs` and `LocalVariables::load` (import)
//! * [`io::stdin`]     replaces `std::io::stdin` inside `stdlib::io::cgetline`
//! * [`println!`]      replaces the prelude macro inside `stdlib::io`
//! * [`fuel`]          bounds call depth (`Function::exec`) and loop iterations (`Loop::exec`)
//!
//! Every seam has a *pass-through* default: with nothing installed on the current OS thread the
//! real std implementation is called, so one build serves every simulator.
pub mod fs;
pub mod fuel;
pub mod io;
pub mod os;
pub mod sync;

/// Captures the text in the simulated stdout of the current thread when one is installed,
/// otherwise prints to the real stdout.
#[macro_export]
macro_rules! println {
    ($($arg:tt)*) => {
        $crate::os::stdout_line(::std::format!($($arg)*))
    };
}
