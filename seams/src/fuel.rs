//! Fuel seam: bounded call depth and loop iterations in simulation builds, so that a generated
//! program that recurses or loops without end finishes as "inconclusive (resource exhaustion)"
//! instead of overflowing the stack of the worker process. Resource exhaustion is outside every
//! property's claim; the harness never reports a fuel stop as a violation.
use std::cell::Cell;

pub const MARKER: &str = "VERIF-FUEL";
/// Marker of the bounded-liveness oracle (see `arm_progress`).
pub const STALL: &str = "VERIF-NO-PROGRESS";

thread_local! {
    static DEPTH: Cell<u32> = const { Cell::new(0) };
    static LOOPS: Cell<u64> = const { Cell::new(0) };
    static MAX_DEPTH: Cell<u32> = const { Cell::new(1500) };
    static MAX_LOOPS: Cell<u64> = const { Cell::new(100_000) };
    static CALLS: Cell<u64> = const { Cell::new(0) };
    static GRACE: Cell<Option<u64>> = const { Cell::new(None) };
}

/// Bounded liveness: from now on at most `grace` further loop iterations may start on this OS
/// thread (all tasks of one simulated execution share it). The simulator arms this at the moment
/// after which every polling loop of the scenario must see its exit condition at its next
/// evaluation; exceeding the grace is reported as a stall (marker `STALL`), not as a fuel stop.
pub fn arm_progress(grace: u64) {
    GRACE.with(|g| g.set(Some(grace)));
}

pub fn is_stall_panic(msg: &str) -> bool {
    msg.contains(STALL)
}

pub struct CallGuard(());

impl Drop for CallGuard {
    fn drop(&mut self) {
        DEPTH.with(|d| d.set(d.get().saturating_sub(1)));
    }
}

/// Called at the start of every SimpleSL function execution.
pub fn enter_call() -> CallGuard {
    // in a simulated execution every function call is a scheduling point too: state that lives
    // outside cells (statics, memo tables, interior state of Function/Code) is then exposed to
    // interleavings at call granularity, not only at cell operations
    if crate::sync::sim_active() && !std::thread::panicking() {
        shuttle::thread::yield_now();
    }
    let d = DEPTH.with(|d| {
        d.set(d.get() + 1);
        d.get()
    });
    // every call also draws on the iteration budget (bounds exponential recursion and
    // endless iterators)
    let calls = CALLS.with(|c| {
        c.set(c.get() + 1);
        c.get()
    });
    if d > MAX_DEPTH.with(|m| m.get()) || calls > MAX_LOOPS.with(|m| m.get()) {
        DEPTH.with(|d| d.set(d.get() - 1));
        panic!("{MARKER}: call depth / call budget exceeded");
    }
    CallGuard(())
}

/// Called once per iteration of `loop`.
pub fn loop_tick() {
    if let Some(g) = GRACE.with(|g| g.get()) {
        if g == 0 {
            GRACE.with(|g| g.set(None));
            panic!("{STALL}: a loop keeps iterating although the condition it waits for has been established");
        }
        GRACE.with(|c| c.set(Some(g - 1)));
    }
    let n = LOOPS.with(|l| {
        l.set(l.get() + 1);
        l.get()
    });
    if n > MAX_LOOPS.with(|m| m.get()) {
        panic!("{MARKER}: loop iteration budget exceeded");
    }
}

/// Resets the counters (start of a run) and sets the budgets.
pub fn reset(max_depth: u32, max_loops: u64) {
    DEPTH.with(|d| d.set(0));
    LOOPS.with(|l| l.set(0));
    CALLS.with(|c| c.set(0));
    MAX_DEPTH.with(|m| m.set(max_depth));
    MAX_LOOPS.with(|m| m.set(max_loops));
    GRACE.with(|g| g.set(None));
}

pub fn is_fuel_panic(msg: &str) -> bool {
    msg.contains(MARKER)
}

/// Called at the start of every instruction execution: in a simulated execution a scheduling
/// point (so that lazily initialised or cached state inside instructions is exposed to
/// interleavings at instruction granularity); draws on the loop budget as well.
pub fn step() {
    if crate::sync::sim_active() && !std::thread::panicking() {
        shuttle::thread::yield_now();
    }
}
