#!/bin/bash
# Small plain mutants (seeded/S-<property>-<id>/ and seeded/S3-<property>-<id>/: patch.diff + meta.txt, written by sub-agents in
# mutation-testing style). For each: the patch applies to $REPO HEAD, the repository's own suite
# passes with it (scratch worktree), and the property's quick check is run against it (patch
# applied to $REPO, reverted straight afterwards). Writes verify.txt. Usage: verify_small.sh [filter]
set -u
REPO="${REPO:-/repo}"; VERIF="${VERIF:-/verif}"; export VERIF_REPO="$REPO"
filter="${1:-}"
W=/tmp/seed-verify-$$
cd $REPO || exit 2
git worktree remove --force $W 2>/dev/null; git worktree prune
git worktree add -q --detach $W HEAD || exit 2
for d in $VERIF/seeded/S*-C*/; do
  id=$(basename "$d")
  case "$id" in *"$filter"*) ;; *) continue;; esac
  prop=$(echo "$id" | cut -d- -f2)
  out="$d/verify.txt"; : > "$out"
  cd $W && git checkout -q -- . && git clean -qfd src parser macros tests docs 2>/dev/null
  if ! git apply "$d/patch.diff" 2>>"$out"; then echo "$id: PATCH DOES NOT APPLY" | tee -a "$out"; continue; fi
  if cargo test --workspace --no-fail-fast --offline >/tmp/sv$$.log 2>&1; then suite="suite passes with patch"; else suite="SUITE FAILS WITH PATCH"; fi
  git checkout -q -- . ; git clean -qfd src parser macros tests docs 2>/dev/null
  cd $VERIF
  if git -C $REPO diff --quiet && git -C $REPO apply "$d/patch.diff"; then
    VERIF_OUT=/tmp/verif-seeded-out$$ ./check "$prop" quick >/tmp/sv$$-check.log 2>&1; rc=$?
    git -C $REPO checkout -- . ; git -C $REPO clean -fdq -- src parser macros tests docs
    echo "$id: $suite; ./check $prop quick -> exit $rc :: $(grep -m1 'class=' /tmp/sv$$-check.log | cut -c1-260)" | tee -a "$out"
  else
    echo "$id: could not apply to $REPO (dirty?)" | tee -a "$out"
  fi
done
cd $REPO && git worktree remove --force $W; git worktree prune
rm -rf /tmp/verif-seeded-out$$ /tmp/sv$$.log
