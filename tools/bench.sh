#!/bin/bash
# A second, independent bench: /tmp/vb-<name>/repo (clone of /repo's HEAD) and /tmp/vb-<name>/verif
# (copy of /verif's working tree, build output excluded, with every /repo path in the three cargo
# manifests rewritten). Seeded changes can be applied and measured there while /repo itself stays
# untouched and the checks in /verif keep running against it. Development aid only: nothing that is
# registered in MANIFEST.json uses it. Remove with: rm -rf /tmp/vb-<name>
#   tools/bench.sh <name>          create / refresh
#   then e.g.  REPO=/tmp/vb-<name>/repo VERIF=/tmp/vb-<name>/verif /tmp/vb-<name>/verif/tools/recheck_seeded.sh r9
set -eu
name="${1:?usage: bench.sh <name>}"
B=/tmp/vb-$name
mkdir -p $B
if [ -d $B/repo/.git ]; then git -C $B/repo fetch -q /repo HEAD && git -C $B/repo checkout -q --detach FETCH_HEAD && git -C $B/repo checkout -q -- . && git -C $B/repo clean -fdq -e target; else git clone -q /repo $B/repo; fi
rsync -a --delete --exclude target --exclude replays --exclude .git /verif/ $B/verif/
sed -i "s#/repo#$B/repo#g" $B/verif/shadow/Cargo.toml $B/verif/sim/Cargo.toml $B/verif/miri/Cargo.toml
echo "bench at $B (repo $(git -C $B/repo rev-parse --short HEAD))"
