#!/bin/bash
# Regression over all seeded changes (seeded/*/patch.diff, incl. the plain mutants S-*): apply each
# to $REPO, run the property's quick check, revert. No cargo test of the repo (that part is
# tools/verify_seeded.sh / verify_small.sh, whose verify.txt stays as the record). Prints one line
# per change and a summary; exit 0 iff every change except the documented misses is caught.
# Usage: tools/recheck_seeded.sh [filter]
set -u
REPO="${REPO:-/repo}"; VERIF="${VERIF:-/verif}"; export VERIF_REPO="$REPO"
filter="${1:-}"
cd $VERIF || exit 2
if ! git -C $REPO diff --quiet; then echo "refusing: $REPO has uncommitted changes" >&2; exit 2; fi
caught=0; missed=0; other=0; documented=0
for d in seeded/*/; do
  id=$(basename "$d")
  case "$id" in *"$filter"*) ;; *) continue;; esac
  [ -f "$d/patch.diff" ] || continue
  case "$id" in S-*|S3-*) prop=$(echo "$id" | cut -d- -f2);; *) prop=${id%%-*};; esac
  # C05-r9-1 needs two executions in flight: that is C16's dimension, and C16 is what catches it
  # C13-r11-1 yields a stale value of `op=` only under concurrent updates: again C16's dimension
  case "$id" in C05-r9-1|C13-r11-1) prop=C16;; esac
  if ! git -C $REPO apply "$PWD/$d/patch.diff" 2>/dev/null; then echo "$id: PATCH DOES NOT APPLY"; other=$((other+1)); continue; fi
  VERIF_OUT=/tmp/verif-recheck-out$$ ./check "$prop" quick >/tmp/recheck$$.log 2>&1; rc=$?
  git -C $REPO checkout -- . ; git -C $REPO clean -fdq -- src parser macros tests docs
  case $rc in
    1) caught=$((caught+1)); echo "$id: caught ($(grep -m1 -o 'class="[^"]*"' /tmp/recheck$$.log))";;
    0) why=$(grep -P "^$id\t" seeded/EXPECTED_MISSES.tsv | cut -f2)
       if [ -n "$why" ]; then documented=$((documented+1)); echo "$id: not caught (documented: $why)"; else missed=$((missed+1)); echo "$id: MISSED"; fi;;
    *) other=$((other+1)); echo "$id: exit $rc";;
  esac
done
rm -rf /tmp/verif-recheck-out$$ /tmp/recheck$$.log
echo "recheck: caught=$caught missed=$missed other=$other documented-misses=$documented"
[ $missed -eq 0 ] && [ $other -eq 0 ]
