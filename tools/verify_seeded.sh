#!/bin/bash
# Confirms every seeded change under $VERIF/seeded/<id>/ in a scratch worktree of $REPO:
#   patch applies; the repository's own suite passes with it; the demonstration fails with it and
#   passes without it. Then runs the claimed check against it (patch applied to $REPO, reverted
#   straight afterwards) unless NO_CHECK=1. Writes seeded/<id>/verify.txt. Usage: verify_seeded.sh [id-substring]
set -u
REPO="${REPO:-/repo}"; VERIF="${VERIF:-/verif}"; export VERIF_REPO="$REPO"
filter="${1:-}"
W=/tmp/seed-verify-$$
cd $REPO || exit 2
git worktree remove --force $W 2>/dev/null; git worktree prune
git worktree add -q --detach $W HEAD || exit 2
for d in $VERIF/seeded/*/; do
  id=$(basename "$d")
  case "$id" in *"$filter"*) ;; *) continue;; esac
  [ -f "$d/patch.diff" ] || continue
  [ -f "$d/demo.rs" ] || continue   # plain mutants (S-*, S3-*) have no demo: tools/verify_small.sh
  prop=${id%%-*}
  out="$d/verify.txt"; : > "$out"
  cd $W && git checkout -q -- . && git clean -qfd tests examples 2>/dev/null
  if ! git apply "$d/patch.diff" 2>>"$out"; then echo "$id: PATCH DOES NOT APPLY" | tee -a "$out"; continue; fi
  if cargo test --workspace --no-fail-fast --offline >/tmp/sv$$.log 2>&1; then suite="suite passes with patch"; else suite="SUITE FAILS WITH PATCH"; fi
  cp "$d/demo.rs" tests/seeded_demo.rs
  if cargo test --offline --test seeded_demo >/tmp/sv$$-demo1.log 2>&1; then with="DEMO PASSES WITH PATCH (bad)"; else with="demo fails with patch"; fi
  git apply -R "$d/patch.diff"
  if cargo test --offline --test seeded_demo >/tmp/sv$$-demo2.log 2>&1; then without="demo passes without patch"; else without="DEMO FAILS WITHOUT PATCH (bad)"; fi
  rm -f tests/seeded_demo.rs
  echo "$id: $suite; $with; $without" | tee -a "$out"
  if [ "${NO_CHECK:-0}" != 1 ]; then
    cd $VERIF
    if git -C $REPO diff --quiet && git -C $REPO apply "$d/patch.diff"; then
      VERIF_OUT=/tmp/verif-seeded-out$$ ./check "$prop" quick >/tmp/sv$$-check.log 2>&1; rc=$?
      git -C $REPO checkout -- . ; git -C $REPO clean -fdq -- src parser macros tests docs
      echo "$id: ./check $prop quick -> exit $rc :: $(grep -c '^VIOLATION' /tmp/sv$$-check.log) violation line(s); first: $(grep -m1 'class=' /tmp/sv$$-check.log | cut -c1-300)" | tee -a "$out"
    else
      echo "$id: could not apply to $REPO (dirty?)" | tee -a "$out"
    fi
  fi
done
cd $REPO && git worktree remove --force $W; git worktree prune
rm -rf /tmp/verif-seeded-out$$ /tmp/sv$$.log /tmp/sv$$-demo1.log /tmp/sv$$-demo2.log
