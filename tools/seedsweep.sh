#!/bin/bash
# False-alarm hunt: runs every claimed check's quick tier under many VERIF_SEED values on the
# current tree; any exit code other than 0 is reported. Usage: tools/seedsweep.sh FROM TO [props...]
set -u
cd "$(dirname "$0")/.."
from=${1:-1}; to=${2:-20}; shift 2 2>/dev/null
props=${*:-C03 C05 C13 C15 C16 C17 C18}
export VERIF_OUT=$(mktemp -d /tmp/verif-sweep.XXXXXX)
bad=0
for seed in $(seq "$from" "$to"); do
  for p in $props; do
    out=$(VERIF_SEED=$seed ./check "$p" quick 2>&1); rc=$?
    if [ $rc -ne 0 ]; then bad=$((bad+1)); echo "SEED $seed $p rc=$rc"; echo "$out" | tail -6 | cut -c1-600; fi
  done
  echo "seed $seed done (bad so far: $bad)"
done
rm -rf "$VERIF_OUT"
echo "sweep finished: $bad non-zero exits"
[ $bad -eq 0 ]
