//! `mirisim <first_round> <rounds> <threads>`: executes `rounds` concurrent rounds on real
//! `std::thread`s inside one Miri process. Miri's scheduler (seeded by `-Zmiri-seed`, pre-empting
//! with `-Zmiri-preemption-rate`) decides every switch - also *inside* std primitives such as
//! `OnceLock`, atomics, `Mutex`, thread-locals, which the shuttle-based simulator cannot see.
//! One (seed, arguments) pair is one exactly repeatable execution.
//!
//! Oracles (all stated by C16): a thread that shares no cell with the others gets the sequential
//! result; N concurrent increments add exactly N and every `c += 1` yields a distinct value;
//! nothing panics; nothing deadlocks (Miri reports a deadlock itself).
//!
//! Output protocol: one `MIRISIM round=<k> kind=<kind> ok` line per round, a final
//! `MIRISIM done rounds=<n>`; on a violation `MIRISIM-VIOLATION round=<k> kind=<kind> class=<c> :: <detail>`
//! and exit status 1.
use simplesl::variable::Variable;
use simplesl::{Code, Interpreter};
use std::sync::{Arc, Barrier};

/// Programs whose threads share only the parsed Code (no cell of their own is shared): each
/// thread's result must be the sequential one. Results are plain values (no printed types).
const INDEPENDENT: &[&str] = &[
    "f := (v: int|string|float) -> int { return match v { i: int => i + 1, s: string => 0, x: float => 2, } }; (f(1), f(\"a\"), f(2.5), f(7))",
    "it := [3, 1, 2]~; f := (x: int) -> int { return x * 2 }; (it @ f) $]",
    "n := mut 0; loop { n += 1; if *n > 4 { break } }; ([1, \"a\", 2.5, 3]~ ? int) $]",
    "i := mut 0; s := mut 0; while *i < 6 { i += 1; s += *i }; *s",
    "it := [1, 2, 3, 4, 5, 6]~ ? (x: int) -> bool { return x % 2 == 0 }; it $+",
    "c := mut [int] []; for e in [1, 2, 3]~ { c += [e * e] }; *c",
    "fib := (n: int) -> int { if n < 2 { return n } return fib(n - 1) + fib(n - 2) }; fib(5)",
    "k := (v: int|string|[int]|()) -> int { return match v { a: int|string => 1, b: [int] => 2, c: () => 3, } }; [k(1), k(\"s\"), k([1]), k(())]",
    "p := [5, 1, 4]~ \\ (x: int) -> bool { return x > 2 }; q := [2, 3, 4]~ $*; (p, q)",
    "c := mut 7; deep := mut [[c]]; a := std.convert.to_string(deep); t := ((c, 1), [[c]]); (a, std.convert.to_string(t))",
    "x := mut any 0; x = \"s\"; x = [1]; y := match *x { 1 => 10, a: [int] => 20, => 30, }; (std.convert.to_string(x), y)",
    "a := [true, true, false]~ $&&; b := [false, true]~ $||; c := [12, 10]~ $&; d := [1, 2, 4]~ $|; (a, b, c, d)",
    "f := (n: int) -> int { r := mut 0; k := mut 0; loop { k += 1; if *k > n { break }; w := mut *k; w *= 2; r += *w }; return *r }; (f(2), f(3))",
    "walk := (n: int, a: int, b: int, c: int) -> int { if n < 1 return a + b + c; d := a + 1; e := b + 2; f := c + 3; g := d + e + f; return walk(n - 1, d, e, f) + g - g; }; (walk(4, 1, 1, 1), walk(2, 0, 0, 0))",
    "v := 6; r := match v { 5, 7 => 1, 6 => 2, => 3, }; s := match \"k\" { \"j\", \"k\" => 10, t: string => 20, }; (r, s)",
];

/// Function values shared between threads and called through the host API with per-thread
/// arguments; each result must equal the sequential call's.
const SHARED_FN: &str = "(v: int|string|[int]) -> [int] { r := mut [int] []; for e in [1, 2, 3]~ { r += [e] }; n := match v { i: int => i, s: string => 100, a: [int] => (a~ $+), }; r += [n]; return *r }";

const CHEAP_FN: &str = "(v: int|string|[int]) -> int { return match v { i: int => i, s: string => 100, a: [int] => 200, } }";

fn violation(round: u64, kind: &str, class: &str, detail: String) -> ! {
    println!("MIRISIM-VIOLATION round={round} kind={kind} class={class} :: {detail}");
    std::process::exit(1);
}

fn show(r: &Result<Variable, simplesl::ExecError>) -> String {
    format!("{r:?}")
}

/// All threads start together and run `f(thread index)`; a panic inside is reported as a value.
fn together<T: Send + 'static>(threads: usize, f: impl Fn(usize) -> T + Send + Sync + 'static) -> Vec<Result<T, String>> {
    let f = Arc::new(f);
    let barrier = Arc::new(Barrier::new(threads));
    let handles: Vec<_> = (0..threads)
        .map(|t| {
            let f = f.clone();
            let barrier = barrier.clone();
            std::thread::spawn(move || {
                barrier.wait();
                f(t)
            })
        })
        .collect();
    handles
        .into_iter()
        .map(|h| {
            h.join().map_err(|p| {
                p.downcast_ref::<String>()
                    .cloned()
                    .or_else(|| p.downcast_ref::<&str>().map(|s| s.to_string()))
                    .unwrap_or_else(|| "<non-string panic>".into())
            })
        })
        .collect()
}

fn independent(round: u64, threads: usize, interp: &Interpreter, prog: &str, fresh: bool) {
    let kind = if fresh { "fresh-code" } else { "shared-code" };
    let parse = || Code::parse(interp, prog).unwrap_or_else(|e| violation(round, kind, "harness", format!("program does not parse: {e:?}")));
    // the reference comes from another parse of the same text, so that in `fresh` mode the first
    // execution of the shared Code's own sites happens concurrently
    let want = show(&parse().exec());
    let code = Arc::new(parse());
    if !fresh {
        let again = show(&code.exec());
        if again != want {
            violation(round, kind, "harness", format!("two sequential runs differ: {want} vs {again}"));
        }
    }
    let c2 = code.clone();
    for (t, got) in together(threads, move |_| show(&c2.exec())).into_iter().enumerate() {
        match got {
            Err(p) => violation(round, kind, "panic", format!("thread {t} panicked running `{prog}`: {p}")),
            Ok(g) if g != want => violation(round, kind, "independent-run-differs", format!("thread {t} running `{prog}` (threads share no cell) got {g}, sequential run gives {want}")),
            _ => {}
        }
    }
}

fn shared_fn(round: u64, threads: usize, interp: &Interpreter, variant: u64) {
    let kind = "shared-fn";
    // variant 0: a cheap body (one `match`), many calls per thread with changing argument types;
    // variant 1: a body with its own cells, iterators and a reduction, fewer calls
    let (src, calls) = if variant % 2 == 0 { (CHEAP_FN, 8) } else { (SHARED_FN, 2) };
    let f = match Code::parse(interp, src).map(|c| c.exec()) {
        Ok(Ok(Variable::Function(f))) => f,
        other => violation(round, kind, "harness", format!("no function: {other:?}")),
    };
    let array = Code::parse(&Interpreter::without_stdlib(), "[4, 5]").unwrap().exec().unwrap();
    // thread 0 repeats one scalar argument, thread 1 alternates two, the others cycle through
    // three types (an implementation that remembers its last call meets its own arguments again
    // while another thread interleaves different ones)
    let arg = move |t: usize, k: usize| -> Variable {
        match (t, k % 3) {
            (0, _) => Variable::Int(7),
            (1, 0) | (1, 2) => Variable::String("s".into()),
            (1, _) => Variable::Int(1),
            (_, 0) => Variable::Int((t * 10 + k) as i64),
            (_, 1) => Variable::String("t".into()),
            _ => array.clone(),
        }
    };
    let call = move |f: &Arc<simplesl::function::Function>, t: usize| -> Vec<String> {
        (0..calls)
            .map(|k| match f.clone().create_call(vec![arg(t, k)]) {
                Ok(c) => show(&c.exec()),
                Err(e) => format!("rejected: {e:?}"),
            })
            .collect()
    };
    let want: Vec<Vec<String>> = (0..threads).map(|t| call(&f, t)).collect();
    let f2 = f.clone();
    let call2 = call.clone();
    for (t, got) in together(threads, move |t| call2(&f2, t)).into_iter().enumerate() {
        match got {
            Err(p) => violation(round, kind, "panic", format!("thread {t} panicked in a host call of the shared function `{src}`: {p}")),
            Ok(g) if g != want[t] => violation(round, kind, "independent-run-differs", format!("thread {t}: {calls} host calls of the shared function `{src}` gave {g:?}, sequentially {:?}", want[t])),
            _ => {}
        }
    }
}

/// T threads x K `c += 1` on one shared cell: the yields must be a permutation of 1..=T*K and
/// the content T*K; variants with other operators have a schedule-independent final content.
fn counter(round: u64, threads: usize, variant: u64, interp: &mut Interpreter) {
    let kind = "shared-cell";
    // fresh cells under the same names: later programs are parsed against the new bindings
    let decl = "c := mut 0; a := mut 1; b := mut 2; s := mut any 0; s = [s, c]";
    Code::parse(interp, decl)
        .unwrap()
        .exec_unscoped(interp)
        .unwrap_or_else(|e| violation(round, kind, "harness", format!("declarations failed: {e:?}")));
    let k = 3;
    let progs: Vec<String> = match variant % 5 {
        // every thread increments; yields are collected
        0 => (0..threads).map(|_| format!("r := mut [int] []; i := mut 0; while *i < {k} {{ i += 1; r += [c += 1] }}; *r")).collect(),
        // commuting pairs (+1/-1, +5/-5) and identities (|0, <<0, *1): content returns to 0; a
        // reader renders the cell meanwhile
        1 => (0..threads)
            .map(|t| match t % 3 {
                0 => "c += 1; c -= 1; c += 5; c -= 5; *c".to_string(),
                1 => "c -= 1; c += 1; c |= 0; c <<= 0; *c".to_string(),
                _ => "x := std.convert.to_string(c); y := std.convert.to_string([c, c]); c *= 1; std.len(x) + std.len(y)".to_string(),
            })
            .collect(),
        // two cells updated from each other in both orders; a cell that contains itself is rendered
        // by some threads while others re-assign it (a renderer that holds its guard while walking
        // into the cell again meets a queued writer)
        2 => (0..threads)
            .map(|t| match t % 3 {
                0 => "a += *b; s = [s, c]; a -= *b; s = [c, s]; (a == b, *a > 0)".to_string(),
                1 => "b += *a; x := std.convert.to_string(s); b -= *a; y := std.convert.to_string([s, s]); std.len(x) + std.len(y)".to_string(),
                _ => "x := std.convert.to_string(s); s = [s, c]; y := std.convert.to_string(s); std.len(x) > 0".to_string(),
            })
            .collect(),
        // one writer, many readers: after its own `w = k` the only writer must read k back
        3 => (0..threads)
            .map(|t| match t {
                0 => "r := mut [int] []; i := mut 0; while *i < 4 { i += 1; a = *i * 10; r += [*a] }; *r".to_string(),
                _ => "x := mut 0; i := mut 0; while *i < 6 { i += 1; x += *a }; *x >= 0".to_string(),
            })
            .collect(),
        // array cell: every thread appends its own elements
        _ => (0..threads).map(|t| format!("l := mut [int] []; c += 0; l += [{t}]; l += [{t}]; cl := *l; cl")).collect(),
    };
    let codes: Vec<Arc<Code>> = progs
        .iter()
        .map(|p| Arc::new(Code::parse(interp, p).unwrap_or_else(|e| violation(round, kind, "harness", format!("`{p}` does not parse: {e:?}")))))
        .collect();
    let codes2 = codes.clone();
    let results = together(threads, move |t| codes2[t].exec());
    let mut yields: Vec<i64> = Vec::new();
    for (t, r) in results.into_iter().enumerate() {
        match r {
            Err(p) => violation(round, kind, "panic", format!("thread {t} panicked running `{}`: {p}", progs[t])),
            Ok(Err(e)) => violation(round, kind, "error", format!("thread {t} running `{}` failed: {e:?}", progs[t])),
            Ok(Ok(v)) => {
                if variant % 5 == 3 && t == 0 && format!("{v:?}") != "[10, 20, 30, 40]" {
                    violation(round, kind, "lost-update", format!("the only writer of cell a stored 10, 20, 30, 40 and read {v:?} back right after each store (other threads only read a)"));
                }
                if variant % 5 == 0 {
                    let text = format!("{v:?}");
                    for n in text.split(|ch: char| !ch.is_ascii_digit() && ch != '-').filter(|s| !s.is_empty()) {
                        if let Ok(n) = n.parse::<i64>() {
                            yields.push(n);
                        }
                    }
                }
            }
        }
    }
    let content = |name: &str| format!("{:?}", Code::parse(interp, &format!("*{name}")).unwrap().exec());
    match variant % 5 {
        0 => {
            let n = (threads * k) as i64;
            yields.sort();
            let want: Vec<i64> = (1..=n).collect();
            if yields != want {
                violation(round, kind, "lost-update", format!("{threads} threads x {k} `c += 1`: yielded values {yields:?}, must be a permutation of 1..={n}"));
            }
            let c = content("c");
            if c != format!("Ok({n})") {
                violation(round, kind, "lost-update", format!("{threads} threads x {k} `c += 1` left {c}, must be {n}"));
            }
        }
        1 => {
            let c = content("c");
            if c != "Ok(0)" {
                violation(round, kind, "lost-update", format!("paired +1/-1, +5/-5 and identity (|0, <<0, *1) updates left {c} in the cell, must be 0"));
            }
        }
        // variant 2: `*b` is a separate read, so the final contents depend on the schedule; the
        // round only has to finish (no deadlock between the two lock orders, no panic)
        _ => {}
    }
}

fn main() {
    let args: Vec<String> = std::env::args().collect();
    let first: u64 = args.get(1).and_then(|s| s.parse().ok()).unwrap_or(0);
    let rounds: u64 = args.get(2).and_then(|s| s.parse().ok()).unwrap_or(4);
    let threads: usize = args.get(3).and_then(|s| s.parse().ok()).unwrap_or(3);
    if rounds == 0 {
        // build / availability probe
        println!("MIRISIM done rounds=0");
        return;
    }
    let mut interp = Interpreter::with_stdlib();
    for round in first..first + rounds {
        let kind = match round % 6 {
            0 | 3 => {
                independent(round, threads, &interp, INDEPENDENT[(round / 3) as usize % INDEPENDENT.len()], false);
                "shared-code"
            }
            1 => {
                independent(round, threads, &interp, INDEPENDENT[(2 + round / 6 * 5) as usize % INDEPENDENT.len()], true);
                "fresh-code"
            }
            2 => {
                shared_fn(round, threads, &interp, round / 6);
                "shared-fn"
            }
            _ => {
                counter(round, threads, round / 6 + (round % 6 - 4), &mut interp);
                "shared-cell"
            }
        };
        println!("MIRISIM round={round} kind={kind} ok");
    }
    println!("MIRISIM done rounds={rounds}");
}
