//! Seeded schedulers for one shuttle execution, with an explicit, replayable choice list.
//!
//! shuttle owns the mechanics (tasks as coroutines on the current OS thread, blocking, deadlock
//! detection); *which task runs next* is decided here, from the run's `schedule` PRNG stream:
//!  * `Random`  - uniform among runnable tasks, optionally sticky (stay on the current task with
//!                probability stick/16: fewer, longer uninterrupted stretches);
//!  * `Pct`     - PCT: random task priorities, d-1 priority change points over the estimated
//!                step count (run highest-priority runnable task);
//!  * `List`    - replay of a recorded choice list (falls back to the lowest runnable task id and
//!                flags divergence if the list does not fit, which minimisation relies on).
use crate::prng::Rng;
use crate::run::guarded;
use shuttle::scheduler::{Schedule, Scheduler, Task, TaskId};
use std::sync::{Arc, Mutex};

#[derive(Clone, Debug)]
pub enum Policy {
    Random { stick: u8 },
    Pct { depth: usize, est_steps: usize },
    List(Vec<u16>),
}

#[derive(Default, Debug)]
pub struct Trace {
    pub choices: Vec<u16>,
    pub diverged: bool,
    pub context_switches: u64,
}

pub struct SimScheduler {
    policy: Policy,
    rng: Rng,
    started: bool,
    trace: Arc<Mutex<Trace>>,
    // pct state
    priorities: Vec<i64>,
    change_points: Vec<usize>,
    low: i64,
    pos: usize,
}

impl SimScheduler {
    pub fn new(policy: Policy, seed: u64, trace: Arc<Mutex<Trace>>) -> Self {
        let mut rng = Rng::new(seed);
        let mut change_points = Vec::new();
        if let Policy::Pct { depth, est_steps } = &policy {
            for _ in 1..*depth {
                change_points.push(1 + rng.below((*est_steps).max(2) - 1));
            }
        }
        SimScheduler { policy, rng, started: false, trace, priorities: Vec::new(), change_points, low: -1, pos: 0 }
    }
}

impl Scheduler for SimScheduler {
    fn new_execution(&mut self) -> Option<Schedule> {
        if self.started {
            return None;
        }
        self.started = true;
        Some(Schedule::new(0))
    }

    fn next_task(&mut self, runnable: &[&Task], current: Option<TaskId>, _is_yielding: bool) -> Option<TaskId> {
        let ids: Vec<usize> = runnable.iter().map(|t| usize::from(t.id())).collect();
        let cur = current.map(usize::from);
        let step = self.pos;
        self.pos += 1;
        let choice = match &self.policy {
            Policy::Random { stick } => {
                if let Some(c) = cur {
                    if ids.contains(&c) && (self.rng.next() % 16) < *stick as u64 {
                        c
                    } else {
                        ids[self.rng.below(ids.len())]
                    }
                } else {
                    ids[self.rng.below(ids.len())]
                }
            }
            Policy::Pct { .. } => {
                let max_id = *ids.iter().max().unwrap();
                while self.priorities.len() <= max_id {
                    // new task: random priority among the existing ones
                    let p = (self.rng.next() % 1_000_000) as i64 + 1;
                    self.priorities.push(p);
                }
                if self.change_points.contains(&step) {
                    if let Some(c) = cur {
                        self.priorities[c] = self.low;
                        self.low -= 1;
                    }
                }
                *ids.iter().max_by_key(|i| self.priorities[**i]).unwrap()
            }
            Policy::List(list) => match list.get(step) {
                Some(c) if ids.contains(&(*c as usize)) => *c as usize,
                _ => {
                    self.trace.lock().unwrap().diverged = true;
                    *ids.iter().min().unwrap()
                }
            },
        };
        let mut t = self.trace.lock().unwrap();
        t.choices.push(choice as u16);
        if cur.is_some() && cur != Some(choice) {
            t.context_switches += 1;
        }
        Some(TaskId::from(choice))
    }

    fn next_u64(&mut self) -> u64 {
        self.rng.next()
    }
}

#[derive(Debug, Clone, PartialEq, Eq)]
pub enum Verdict {
    Completed,
    Deadlock(String),
    Panic(String),
    /// step bound exceeded or scheduler trouble: no verdict about the system
    Harness(String),
}

pub struct Execution {
    pub verdict: Verdict,
    pub choices: Vec<u16>,
    pub diverged: bool,
    pub context_switches: u64,
}

/// Runs `body` as the main task of exactly one shuttle execution under `policy`.
pub fn run_once(policy: Policy, sched_seed: u64, body: impl Fn() + Send + Sync + 'static) -> Execution {
    let trace = Arc::new(Mutex::new(Trace::default()));
    let scheduler = SimScheduler::new(policy, sched_seed, trace.clone());
    let mut config = shuttle::Config::new();
    config.stack_size = 8 << 20;
    config.failure_persistence = shuttle::FailurePersistence::None;
    config.max_steps = shuttle::MaxSteps::FailAfter(200_000);
    config.silence_warnings = true;
    let _ = crate::run::take_panics();
    let r = guarded(move || {
        let runner = shuttle::Runner::new(scheduler, config);
        runner.run(body);
    });
    let panics = crate::run::take_panics();
    let verdict = match r {
        Ok(()) => Verdict::Completed,
        Err(last) => {
            let first = panics.first().cloned().unwrap_or_else(|| last.clone());
            if panics.iter().any(|m| m.contains("deadlock!")) || last.contains("deadlock!") {
                let m = panics.iter().find(|m| m.contains("deadlock!")).cloned().unwrap_or(last);
                Verdict::Deadlock(m)
            } else if first.contains("exceeded max_steps") || first.contains("no task was scheduled") {
                Verdict::Harness(first)
            } else {
                Verdict::Panic(first)
            }
        }
    };
    let t = trace.lock().unwrap();
    Execution { verdict, choices: t.choices.clone(), diverged: t.diverged, context_switches: t.context_switches }
}
