//! `cellsim` (DESIGN §4.3 / §4.4): mutable cells under histories (T = 1, C13) and under thread
//! interleavings (T >= 2, C16). The interpreter, checker and `Mut` run as real code; the lock
//! inside `Mut` is the simulated `RwLock` of the seams crate, every acquire/release of which is a
//! scheduling point decided by the seeded scheduler of `sched.rs`.
use crate::canon::{ctype, cvar, inhabits};
use crate::cellmodel::*;
use crate::prng::{derive_n, digest, Rng};
use crate::run::{guarded, on_fresh_thread};
use crate::sched::{self, Policy, Verdict};
use serde_json::{json, Value};
use simplesl::variable::{Typed, Variable};
use simplesl::{Code, ExecError, Interpreter};
use simplesl_verif_seams::{os, sync};
use std::sync::atomic::{AtomicU64, Ordering};
use std::sync::{Arc, Mutex};

// ---------------------------------------------------------------------------------------------
// scenario

#[derive(Clone, Debug)]
pub struct Scenario {
    pub boot_seed: u64,
    pub key_seed: u64,
    /// "cells": operations on the shared world; "shared_code": every thread runs program `prog`
    pub mode: String,
    pub threads: Vec<Vec<Op>>,
    pub prog: String,
    pub policy: Policy,
    pub sched_seed: u64,
    /// 0 = writer-preferring (std on Linux; gating), 1 = reader-preferring (non-gating variant)
    pub lock_policy: u8,
}

fn policy_json(p: &Policy) -> Value {
    match p {
        Policy::Random { stick } => json!({"random": {"stick": stick}}),
        Policy::Pct { depth, est_steps } => json!({"pct": {"depth": depth, "est_steps": est_steps}}),
        Policy::List(l) => json!({"list": l}),
    }
}

fn policy_from_json(v: &Value) -> Policy {
    let o = v.as_object().unwrap();
    let (k, x) = o.iter().next().unwrap();
    match k.as_str() {
        "random" => Policy::Random { stick: x["stick"].as_u64().unwrap() as u8 },
        "pct" => Policy::Pct { depth: x["depth"].as_u64().unwrap() as usize, est_steps: x["est_steps"].as_u64().unwrap() as usize },
        _ => Policy::List(x.as_array().unwrap().iter().map(|n| n.as_u64().unwrap() as u16).collect()),
    }
}

impl Scenario {
    pub fn to_json(&self) -> Value {
        json!({
            "sim": "cellsim", "boot_seed": self.boot_seed, "key_seed": self.key_seed, "mode": self.mode,
            "threads": self.threads.iter().map(|t| t.iter().map(Op::to_json).collect::<Vec<_>>()).collect::<Vec<_>>(),
            "prog": self.prog, "policy": policy_json(&self.policy), "sched_seed": self.sched_seed, "lock_policy": self.lock_policy,
        })
    }
    pub fn from_json(v: &Value) -> Scenario {
        Scenario {
            boot_seed: v["boot_seed"].as_u64().unwrap(),
            key_seed: v["key_seed"].as_u64().unwrap(),
            mode: v["mode"].as_str().unwrap().to_string(),
            threads: v["threads"].as_array().unwrap().iter().map(|t| t.as_array().unwrap().iter().map(Op::from_json).collect()).collect(),
            prog: v["prog"].as_str().unwrap_or("").to_string(),
            policy: policy_from_json(&v["policy"]),
            sched_seed: v["sched_seed"].as_u64().unwrap_or(0),
            lock_policy: v["lock_policy"].as_u64().unwrap_or(0) as u8,
        }
    }
}

// ---------------------------------------------------------------------------------------------
// outcome

#[derive(Clone, Debug, Default)]
pub struct RunReport {
    /// (class, detail) - empty when the property held on this run
    pub violation: Option<(String, String)>,
    /// explicit schedule actually taken (task id per scheduling decision)
    pub choices: Vec<u16>,
    pub diverged: bool,
    pub events: u64,
    pub lock_events: u64,
    pub context_switches: u64,
    pub schedule_digest: u64,
    pub history_digest: u64,
    pub probes: sync::Probes,
    pub ops_by_kind: Vec<(String, u64)>,
    pub failing_ops_fired: u64,
    pub rejected_ops: Vec<String>,
    pub log: Vec<String>,
    pub harness_error: Option<String>,
    pub overlapped_rmw: u64,
}

#[derive(Clone, Debug)]
enum Obs {
    Value(Variable),
    Error(String),
}

#[derive(Clone, Debug)]
struct HistEntry {
    thread: usize,
    op: Op,
    inv: u64,
    ret: u64,
    obs: Obs,
}

fn exec_err_name(e: &ExecError) -> String {
    format!("{e:?}")
}

fn obs_matches(exp: &Expect, obs: &Obs) -> bool {
    match (exp, obs) {
        (Expect::Unchecked, _) | (Expect::Rejected, _) => true,
        (Expect::Value(v), Obs::Value(x)) => val_eq(v, x),
        (Expect::Error(e), Obs::Error(x)) => e == x,
        _ => false,
    }
}

fn obs_text(o: &Obs) -> String {
    match o {
        Obs::Value(v) => cvar(v),
        Obs::Error(e) => format!("Err({e})"),
    }
}

fn kind_name(k: &OpKind) -> String {
    match k {
        OpKind::Set(_) => "set".into(),
        OpKind::Compound(op, _) => format!("{op}="),
        OpKind::Get => "get".into(),
        OpKind::Show => "show".into(),
        OpKind::SameCell(..) => "same_cell".into(),
        OpKind::BumpViaRhs => "bump_via_rhs".into(),
        OpKind::Pull => "pull".into(),
        OpKind::MkFresh(v) => format!("mk_fresh/{}", v % 12),
        OpKind::SelfShow => "self_show".into(),
        OpKind::SelfSet(_) => "self_set".into(),
        OpKind::SelfTie => "self_tie".into(),
        OpKind::ReadViaParam => "read_via_param".into(),
        OpKind::AddViaParam(_) => "add_via_param".into(),
        OpKind::Attack(_) => "attack".into(),
        OpKind::Valid(..) => "valid_on_unmodelled_cell".into(),
        OpKind::IndexSelf => "index_by_own_length".into(),
        OpKind::ApplyViaParam(op, _) => format!("apply({op}=)"),
        OpKind::TransferFrom(op, ..) => format!("transfer({op}=*)"),
        OpKind::CompareContents(..) => "compare_contents".into(),
        OpKind::PairShow(_) => "pair_show".into(),
        OpKind::PairSet(..) => "pair_set".into(),
        OpKind::PairTie => "pair_tie".into(),
    }
}

/// Builds the world on the current thread; returns the interpreter holding the cells.
fn build_world() -> Result<Interpreter<'static>, String> {
    let mut interp = Interpreter::with_stdlib();
    let code = Code::parse(&interp, WORLD).map_err(|e| format!("world rejected: {e}"))?;
    code.exec_unscoped(&mut interp).map_err(|e| format!("world failed: {e}"))?;
    Ok(interp)
}

/// Reads every cell of the world and checks the content against the declared type (oracle T) and
/// optionally against the model heap through every alias path (oracle A).
fn check_world(interp: &Interpreter, model: Option<&Model>, path_codes: &[Vec<Option<Code>>]) -> Option<(String, String)> {
    for name in EXTRA_CELLS {
        if let Some(Variable::Mut(m)) = interp.get_variable(name) {
            let content = m.variable.read().map(|g| g.clone()).unwrap_or_else(|p| p.into_inner().clone());
            if !inhabits(&content, &m.var_type) {
                return Some((
                    "type-violation".into(),
                    format!("cell {name} declared `mut {}` holds {}", ctype(&m.var_type), cvar(&content)),
                ));
            }
        }
    }
    for (i, spec) in CELLS.iter().enumerate() {
        let Some(Variable::Mut(m)) = interp.get_variable(spec.name) else {
            return Some(("harness".into(), format!("cell {} missing", spec.name)));
        };
        let content = m.variable.read().map(|g| g.clone()).unwrap_or_else(|p| p.into_inner().clone());
        if !inhabits(&content, &m.var_type) {
            return Some((
                "type-violation".into(),
                format!("cell {} declared `mut {}` holds {}", spec.name, ctype(&m.var_type), cvar(&content)),
            ));
        }
        if let Some(model) = model {
            let want = &model.heap[i];
            let ok = match want {
                Val::Ref(j) => match (&content, interp.get_variable(CELLS[*j].name)) {
                    (Variable::Mut(a), Some(Variable::Mut(b))) => Arc::ptr_eq(a, b),
                    _ => false,
                },
                w => val_eq(w, &content),
            };
            if !ok {
                return Some((
                    "content-mismatch".into(),
                    format!("cell {} holds {} but the reference heap holds {:?}", spec.name, cvar(&content), want),
                ));
            }
            // aliasing: `*path` through every alias path yields the same content
            for (pi, code) in path_codes[i].iter().enumerate() {
                let Some(code) = code else { continue };
                match guarded(|| code.exec()) {
                    Ok(Ok(v)) => {
                        let ok = match want {
                            Val::Ref(j) => match (&v, interp.get_variable(CELLS[*j].name)) {
                                (Variable::Mut(a), Some(Variable::Mut(b))) => Arc::ptr_eq(a, b),
                                _ => false,
                            },
                            w => val_eq(w, &v),
                        };
                        if !ok {
                            return Some((
                                "alias-mismatch".into(),
                                format!("reading cell {} through `*{}` gives {} but its content is {:?}", spec.name, spec.paths[pi], cvar(&v), want),
                            ));
                        }
                    }
                    Ok(Err(e)) => return Some(("alias-mismatch".into(), format!("reading `*{}` failed: {e}", spec.paths[pi]))),
                    Err(p) => return Some(("panic".into(), format!("reading `*{}` panicked: {p}", spec.paths[pi]))),
                }
            }
        }
    }
    None
}

fn parse_paths(interp: &Interpreter) -> Vec<Vec<Option<Code>>> {
    CELLS
        .iter()
        .map(|spec| spec.paths.iter().map(|p| Code::parse(interp, &format!("*{p}")).ok()).collect())
        .collect()
}

// ---------------------------------------------------------------------------------------------
// T = 1 (C13): histories against the reference heap, checked after every step

pub fn run_sequential(sc: &Scenario) -> RunReport {
    let sc = sc.clone();
    let r = on_fresh_thread(sc.key_seed, move || {
        let mut rep = RunReport::default();
        os::install(os::SimOs::new());
        let interp = match build_world() {
            Ok(i) => i,
            Err(e) => {
                rep.violation = Some(("world".into(), e));
                return rep;
            }
        };
        let path_codes = parse_paths(&interp);
        let mut model = Model::new();
        let mut kinds: std::collections::BTreeMap<String, u64> = Default::default();
        let mut hist = String::new();
        if let Some(v) = check_world(&interp, Some(&model), &path_codes) {
            rep.violation = Some(v);
            return rep;
        }
        for (step, op) in sc.threads.first().cloned().unwrap_or_default().iter().enumerate() {
            let src = op.src();
            *kinds.entry(kind_name(&op.kind)).or_default() += 1;
            rep.events += 1;
            let parsed = guarded(|| Code::parse(&interp, &src));
            let code = match parsed {
                Err(p) => {
                    rep.violation = Some(("panic".into(), format!("step {step}: parsing `{src}` panicked: {p}")));
                    return rep;
                }
                Ok(Err(e)) => {
                    // A rejected operation is not a violation: C13 speaks about what accepted
                    // assignments do (no property demands that the checker accept a program).
                    // Rejections of non-attack operations are counted; the driver refuses to give a
                    // verdict if they become so frequent that the workload is vacuous.
                    if matches!(op.kind, OpKind::Attack(_)) {
                        rep.rejected_ops.push(src.clone());
                    } else {
                        rep.rejected_ops.push(format!("UNEXPECTED {src}"));
                    }
                    let _ = e;
                    rep.log.push(format!("{step}: {src} -> rejected"));
                    continue;
                }
                Ok(Ok(c)) => c,
            };
            let before = model.clone();
            let expect = model.apply(op);
            if matches!(op.kind, OpKind::Attack(_)) {
                // an accepted "attack" is executed; whatever it does, the invariants below must hold.
                // The model does not follow it: re-sync the model from the real cells afterwards.
                model = before;
            }
            let res = guarded(|| code.exec());
            let obs = match res {
                Err(p) => {
                    rep.violation = Some(("panic".into(), format!("step {step}: `{src}` panicked: {p}")));
                    return rep;
                }
                Ok(Ok(v)) => Obs::Value(v),
                Ok(Err(e)) => Obs::Error(exec_err_name(&e)),
            };
            if matches!(expect, Expect::Error(_)) {
                rep.failing_ops_fired += 1;
            }
            rep.log.push(format!("{step}: {src} -> {}", obs_text(&obs)));
            hist.push_str(&format!("{src}->{};", obs_text(&obs)));
            if matches!(op.kind, OpKind::Attack(_)) {
                // type invariant only
                if let Some(v) = check_world(&interp, None, &path_codes) {
                    rep.violation = Some((v.0, format!("step {step}: after accepted `{src}`: {}", v.1)));
                    return rep;
                }
                resync(&interp, &mut model);
                continue;
            }
            if let (OpKind::Set(Val::Ref(j)), Obs::Value(Variable::Mut(a))) = (&op.kind, &obs) {
                // `cc = m1` yields the stored cell itself
                let same = matches!(interp.get_variable(CELLS[*j].name), Some(Variable::Mut(b)) if Arc::ptr_eq(a, b));
                if !same {
                    rep.violation = Some(("result-mismatch".into(), format!("step {step}: `{src}` did not yield the stored cell")));
                    return rep;
                }
            } else if !obs_matches(&expect, &obs) {
                rep.violation = Some((
                    "result-mismatch".into(),
                    format!("step {step}: `{src}` yielded {} but the reference semantics gives {:?}", obs_text(&obs), expect),
                ));
                return rep;
            }
            if let Some(v) = check_world(&interp, Some(&model), &path_codes) {
                rep.violation = Some((v.0, format!("step {step}: after `{src}`: {}", v.1)));
                return rep;
            }
        }
        rep.ops_by_kind = kinds.into_iter().collect();
        rep.history_digest = digest(&hist);
        os::uninstall();
        rep
    });
    match r {
        Ok(rep) => rep,
        Err(p) => RunReport { harness_error: Some(format!("run thread panicked: {p}")), ..Default::default() },
    }
}

fn resync(interp: &Interpreter, model: &mut Model) {
    for (i, spec) in CELLS.iter().enumerate() {
        if let Some(Variable::Mut(m)) = interp.get_variable(spec.name) {
            let content = m.variable.read().map(|g| g.clone()).unwrap_or_else(|p| p.into_inner().clone());
            model.heap[i] = match &content {
                Variable::Int(x) => Val::Int(*x),
                Variable::Float(x) => Val::Float(*x),
                Variable::Bool(x) => Val::Bool(*x),
                Variable::String(x) => Val::Str(x.to_string()),
                Variable::Array(a) => Val::Arr(
                    a.iter()
                        .map(|e| match e {
                            Variable::Int(x) => Val::Int(*x),
                            _ => Val::Void,
                        })
                        .collect(),
                ),
                Variable::Mut(inner) => {
                    let mut r = model.heap[i].clone();
                    for (j, s2) in CELLS.iter().enumerate() {
                        if let Some(Variable::Mut(b)) = interp.get_variable(s2.name) {
                            if Arc::ptr_eq(inner, b) {
                                r = Val::Ref(j);
                            }
                        }
                    }
                    r
                }
                _ => model.heap[i].clone(),
            };
        }
    }
}

// ---------------------------------------------------------------------------------------------
// T >= 2 (C16): one shuttle execution

struct Shared {
    codes: Vec<Vec<(Op, Code)>>,
    hist: Mutex<Vec<HistEntry>>,
    stamp: AtomicU64,
    lock_policy: u8,
    lock_result: Mutex<Option<(Vec<sync::LockEvent>, sync::Probes)>>,
    results: Mutex<Vec<(usize, String)>>,
    inflight: Mutex<Vec<Option<String>>>,
}

// SAFETY-free: Code and Variable are Send + Sync (asserted by the repo's own tests).

pub fn run_concurrent(sc: &Scenario) -> RunReport {
    let sc = sc.clone();
    let r = on_fresh_thread(sc.key_seed, move || {
        let mut rep = RunReport::default();
        os::install(os::SimOs::new());
        if sc.mode == "handshake" {
            return run_handshake(&sc, rep);
        }
        if sc.mode == "shared_code" || sc.mode == "shared_fn" || sc.mode == "indep" {
            return run_shared_code(&sc, rep);
        }
        let interp = match build_world() {
            Ok(i) => i,
            Err(e) => {
                rep.violation = Some(("world".into(), e));
                return rep;
            }
        };
        // pre-build every operation in the main context: threads only `exec()`
        let mut codes: Vec<Vec<(Op, Code)>> = Vec::new();
        let mut kinds: std::collections::BTreeMap<String, u64> = Default::default();
        for t in &sc.threads {
            let mut v = Vec::new();
            for op in t {
                let src = op.src();
                match guarded(|| Code::parse(&interp, &src)) {
                    Err(p) => {
                        rep.violation = Some(("panic".into(), format!("parsing `{src}` panicked: {p}")));
                        return rep;
                    }
                    Ok(Err(_)) => rep.rejected_ops.push(format!("UNEXPECTED {src}")),
                    Ok(Ok(c)) => {
                        *kinds.entry(kind_name(&op.kind)).or_default() += 1;
                        v.push((op.clone(), c));
                    }
                }
            }
            codes.push(v);
        }
        rep.ops_by_kind = kinds.into_iter().collect();
        let shared = Arc::new(Shared {
            codes,
            hist: Mutex::new(Vec::new()),
            stamp: AtomicU64::new(0),
            lock_policy: sc.lock_policy,
            lock_result: Mutex::new(None),
            results: Mutex::new(Vec::new()),
            inflight: Mutex::new(vec![None; sc.threads.len()]),
        });
        let sh = shared.clone();
        let exec = sched::run_once(sc.policy.clone(), sc.sched_seed, move || {
            sync::sim_begin(sh.lock_policy);
            let mut handles = Vec::new();
            for t in 0..sh.codes.len() {
                let sh2 = sh.clone();
                handles.push(shuttle::thread::spawn(move || {
                    for (op, code) in sh2.codes[t].iter() {
                        let inv = sh2.stamp.fetch_add(1, Ordering::SeqCst);
                        sh2.inflight.lock().unwrap()[t] = Some(format!("[{inv}..) T{t} {}", op.src()));
                        let res = code.exec();
                        let ret = sh2.stamp.fetch_add(1, Ordering::SeqCst);
                        sh2.inflight.lock().unwrap()[t] = None;
                        let obs = match res {
                            Ok(v) => Obs::Value(v),
                            Err(e) => Obs::Error(exec_err_name(&e)),
                        };
                        sh2.hist.lock().unwrap().push(HistEntry { thread: t, op: op.clone(), inv, ret, obs });
                    }
                }));
            }
            for h in handles {
                h.join().unwrap();
            }
            *sh.lock_result.lock().unwrap() = Some(sync::sim_end());
        });
        sync::sim_abort();
        rep.choices = exec.choices.clone();
        rep.diverged = exec.diverged;
        rep.context_switches = exec.context_switches;
        rep.schedule_digest = digest(&format!("{:?}", exec.choices));
        if let Some((events, probes)) = shared.lock_result.lock().unwrap().take() {
            rep.lock_events = events.len() as u64;
            rep.schedule_digest = digest(&format!("{:?}", events.iter().map(|e| (e.actor, e.lock, e.kind as u8)).collect::<Vec<_>>()));
            rep.probes = probes;
        }
        let hist = shared.hist.lock().unwrap().clone();
        rep.events = hist.len() as u64;
        rep.history_digest = digest(&hist.iter().map(|h| format!("{}:{}:{}", h.thread, h.op.src(), obs_text(&h.obs))).collect::<Vec<_>>().join(";"));
        for h in &hist {
            rep.log.push(format!("[{}..{}] T{} {} -> {}", h.inv, h.ret, h.thread, h.op.src(), obs_text(&h.obs)));
            if let Obs::Error(_) = h.obs {
                rep.failing_ops_fired += 1;
            }
        }
        let inflight: Vec<String> = shared.inflight.lock().unwrap_or_else(|p| p.into_inner()).iter().flatten().cloned().collect();
        for i in &inflight {
            rep.log.push(format!("{i} -> (never returned)"));
        }
        match exec.verdict {
            Verdict::Completed => {}
            Verdict::Deadlock(_) => {
                rep.violation = Some(("deadlock".into(), format!("all threads blocked; operations in flight: {}", inflight.join(" ; "))));
                return rep;
            }
            Verdict::Panic(m) => {
                rep.violation = Some(("panic".into(), format!("{m}; operations in flight: {}", inflight.join(" ; "))));
                return rep;
            }
            Verdict::Harness(m) => {
                rep.harness_error = Some(m);
                return rep;
            }
        }
        // a shared iterator reports nothing but elements of its array. (How MANY pulls report one,
        // and whether two concurrent pulls may report the same element, is not demanded: C16 asks
        // for atomic assignments, no deadlock and no panic - not for exactly-once delivery. An
        // earlier version bounded the number of deliveries by the length of the array, which holds
        // for the pinned helper only because it advances its index with one `+=`; an equivalent
        // helper that reads the index and stores index + 1 was reported. Removed: DESIGN section 11.)
        for h in hist.iter().filter(|h| matches!(h.op.kind, OpKind::Pull)) {
            let text = obs_text(&h.obs);
            if let Some(rest) = text.strip_prefix("(true,") {
                let v = rest.trim_end_matches(')').trim().parse::<i64>().ok();
                let items: &[i64] = match h.op.path {
                    1 => &ITER2_ITEMS,
                    2 => &crate::cellmodel::PIPE_ITEMS,
                    _ => &ITER_ITEMS,
                };
                if !v.is_some_and(|v| items.contains(&v)) {
                    rep.violation = Some(("iterator-invents-element".into(), format!("T{} `{}` reported {text}, which is no element of the shared iterator's array {items:?}", h.thread, h.op.src())));
                    return rep;
                }
            }
        }
        // operations whose result does not depend on the history (consistent-snapshot reads, pure
        // blocks): the result is what it is under every interleaving
        for h in &hist {
            if let OpKind::Valid(_, Some(want)) = &h.op.kind {
                if !obs_matches(&Expect::Value(Val::Int(*want)), &h.obs) {
                    rep.violation = Some(("result-mismatch".into(), format!("T{} `{}` yielded {} under this interleaving; it yields {want} whatever the other threads do", h.thread, h.op.src(), obs_text(&h.obs))));
                    return rep;
                }
            }
        }
        // oracle T + final contents are part of the history (a final read of every cell after all joins)
        if let Some(v) = check_world(&interp, None, &[]) {
            rep.violation = Some(v);
            return rep;
        }
        let mut hist = hist;
        let end = shared.stamp.load(Ordering::SeqCst);
        let _ = &sc;
        for (i, spec) in CELLS.iter().enumerate() {
            if spec.kind == Kind::CellOfInt {
                continue;
            }
            if let Some(Variable::Mut(m)) = interp.get_variable(spec.name) {
                let content = m.variable.read().map(|g| g.clone()).unwrap_or_else(|p| p.into_inner().clone());
                hist.push(HistEntry { thread: 99, op: Op { cell: i, path: 0, kind: OpKind::Get }, inv: end + 1, ret: end + 2, obs: Obs::Value(content) });
            }
        }
        // oracle L: per-cell linearizability against the sequential reference
        let repointed = hist.iter().any(|h| h.op.cell == CC && matches!(h.op.kind, OpKind::Set(Val::Ref(_))))
            // `p op= *q` is two atomic steps (read q, then update p): the value read is not recorded, so
            // the int cells are judged for deadlock / panic / declared type only in such runs
            || hist.iter().any(|h| matches!(h.op.kind, OpKind::TransferFrom(..)));
        for cell in 0..CELLS.len() {
            if repointed && (CELLS[cell].kind == Kind::Int || cell == CC) {
                // `*cc` is a moving alias: which int cell an operation through it hit is not recorded
                continue;
            }
            let entries: Vec<&HistEntry> = hist
                .iter()
                .filter(|h| h.op.cell == cell && !matches!(h.op.kind, OpKind::Pull | OpKind::SelfShow | OpKind::SelfSet(_) | OpKind::SelfTie | OpKind::MkFresh(_) | OpKind::Attack(_) | OpKind::Valid(..) | OpKind::IndexSelf | OpKind::PairShow(_) | OpKind::PairSet(..) | OpKind::PairTie | OpKind::CompareContents(..)))
                .collect();
            if entries.len() <= 1 {
                continue;
            }
            rep.overlapped_rmw += overlaps(&entries);
            if !linearizable(&entries) {
                let mut lines: Vec<String> = entries.iter().map(|h| format!("[{}..{}] T{} {} -> {}", h.inv, h.ret, h.thread, h.op.src(), obs_text(&h.obs))).collect();
                lines.sort();
                rep.violation = Some((
                    "not-linearizable".into(),
                    format!("no sequential order of the operations on cell {} explains the observed results: {}", CELLS[cell].name, lines.join(" ; ")),
                ));
                return rep;
            }
        }
        // shared iterator: every pulled element must be one of the array's, no duplicates of distinct positions required
        os::uninstall();
        rep
    });
    match r {
        Ok(rep) => rep,
        Err(p) => RunReport { harness_error: Some(format!("run thread panicked: {p}")), ..Default::default() },
    }
}

fn overlaps(entries: &[&HistEntry]) -> u64 {
    let mut n = 0;
    for (i, a) in entries.iter().enumerate() {
        for b in entries.iter().skip(i + 1) {
            let rmw = |h: &HistEntry| matches!(h.op.kind, OpKind::Compound(..) | OpKind::AddViaParam(_) | OpKind::ApplyViaParam(..));
            if rmw(a) && rmw(b) && a.inv < b.ret && b.inv < a.ret && a.thread != b.thread {
                n += 1;
            }
        }
    }
    n
}

/// Wing-Gong search: is there a total order, consistent with real-time order (ret < inv), in which
/// every operation's observed result is the one the sequential model gives?
fn linearizable(entries: &[&HistEntry]) -> bool {
    fn go(remaining: &mut Vec<usize>, entries: &[&HistEntry], model: &Model, budget: &mut u64) -> bool {
        if remaining.is_empty() {
            return true;
        }
        if *budget == 0 {
            return true; // search budget exhausted: inconclusive, never an alarm
        }
        *budget -= 1;
        let min_ret = remaining.iter().map(|&i| entries[i].ret).min().unwrap();
        let candidates: Vec<usize> = remaining.iter().copied().filter(|&i| entries[i].inv < min_ret).collect();
        for c in candidates {
            let mut m = model.clone();
            let exp = m.apply(&entries[c].op);
            if obs_matches(&exp, &entries[c].obs) {
                let pos = remaining.iter().position(|&x| x == c).unwrap();
                remaining.remove(pos);
                if go(remaining, entries, &m, budget) {
                    return true;
                }
                remaining.insert(pos, c);
            }
        }
        false
    }
    let mut remaining: Vec<usize> = (0..entries.len()).collect();
    let mut budget = 2_000_000u64;
    go(&mut remaining, entries, &Model::new(), &mut budget)
}

// ---------------------------------------------------------------------------------------------
// C16, second family: threads share one parsed `Code` that owns no shared cell

/// Threads that share NOTHING of their own: every thread executes its own program (texts separated
/// by `\n@@\n` in `prog`), built from templates with run-unique names so that the types in them
/// have never been seen by this process. What the threads can still meet in is process-wide state
/// of the interpreter (statics, memo tables). Each thread must get what its program yields alone;
/// the sequential references are computed AFTER the concurrent run (the programs are pure functions
/// of their text), so the concurrent run is the first the process sees of these types.
/// Bounded liveness (C16: "no interleaving of executions deadlocks"; a thread that spins for ever
/// on a condition another thread has long established is as stuck as a blocked one, only the
/// scheduler cannot see it). `prog` declares host cells; every thread runs its statements (parsed
/// beforehand against the live interpreter, so the cells are known constants of the code) in
/// order. A thread with a statement marked `@poll ` waits in a loop for something the other
/// threads (the signallers) establish; ` @=> n` is the value its statement must yield.
/// Oracle: from the moment the last signaller has finished, every polling loop sees its exit
/// condition at its next evaluation, so at most one more iteration per poller may start; the
/// simulator grants eight per poller (`fuel::arm_progress`) and reports more as `no-progress`.
/// The scheduler is the (probabilistically fair) random one; a poller that uses up the loop budget
/// before the signallers are done gives no verdict.
pub const HANDSHAKES: &[(&str, &[&[&str]])] = &[
    ("flag := mut true; ticks := mut 0", &[&["@poll while *flag { ticks += 1 }; 1 @=> 1"], &["flag = false"]]),
    ("ready := mut false; data := mut 0", &[&["@poll while *ready == false {}; *data @=> 42"], &["data = 42", "ready = true"]]),
    ("count := mut 0", &[&["@poll while *count < 2 {}; *count @=> 2"], &["count += 1"], &["count += 1"]]),
    ("flag := mut true", &[&["@poll loop { if *flag { } else { break } }; 5 @=> 5"], &["flag ^= true"]]),
    ("go := mut true; stop := mut false; n := mut 0", &[&["@poll while *go && *stop == false { n += 1 }; 3 @=> 3"], &["stop |= true"]]),
    ("arr := mut [0]", &[&["@poll while std.len(*arr) < 3 {}; std.len(*arr) @=> 3"], &["arr += [1]", "arr += [2]"]]),
    ("flag := mut true; get := () -> bool { return *flag }", &[&["@poll while get() {}; 9 @=> 9"], &["flag = false"]]),
    ("flag := mut true; a := mut 0; b := mut 0", &[&["@poll while *flag { a += 1 }; 1 @=> 1"], &["@poll while *flag { b += 1 }; 2 @=> 2"], &["flag = false"]]),
    ("left := mut 3; spin := () -> int { while *left > 0 { }; return *left }", &[&["@poll spin() @=> 0"], &["left -= 1", "left -= 1", "left -= 1"]]),
    ("s := mut \"\"", &[&["@poll while *s == \"\" {}; std.len(*s) @=> 2"], &["s += \"ok\""]]),
    ("u := mut int|string 0", &[&["@poll while x: int = *u {}; 4 @=> 4"], &["u = \"done\""]]),
    ("lo := mut 0; hi := mut 10; k := mut 0", &[&["@poll while *lo < *hi { k += 1 }; 6 @=> 6"], &["hi -= 4", "lo += 6"]]),
    ("f := mut 1.5", &[&["@poll while *f > 0.0 {}; 8 @=> 8"], &["f -= 1.0", "f *= -1.0"]]),
    ("flag := mut true; seen := mut 0", &[&["seen += 1", "@poll while *flag { seen |= 2 }; *seen & 1 @=> 1"], &["flag &= false"]]),
    ("c := mut mut 1; z := mut 0", &[&["@poll while *(*c) != 0 {}; 7 @=> 7"], &["c = z"]]),
];

/// Development aid (`simctl handshakes <n>`): every template under n scheduler seeds.
pub fn handshake_survey(n: u64) {
    crate::boot::boot(1);
    for (i, (setup, threads)) in HANDSHAKES.iter().enumerate() {
        let mut tally: std::collections::BTreeMap<String, u64> = Default::default();
        let t0 = std::time::Instant::now();
        let mut steps = 0usize;
        for k in 0..n {
            let threads = threads.iter().map(|t| t.iter().map(|s| Op { cell: 0, path: 0, kind: OpKind::Attack(s.to_string()) }).collect()).collect();
            let sc = Scenario { boot_seed: 1, key_seed: k, mode: "handshake".into(), threads, prog: setup.to_string(), policy: Policy::Random { stick: [0u8, 4, 8][(k % 3) as usize] }, sched_seed: k * 7919 + 1, lock_policy: 0 };
            let rep = run_scenario(&sc);
            steps += rep.choices.len();
            let key = match (&rep.violation, &rep.harness_error) {
                (Some((c, d)), _) => format!("VIOLATION {c}: {d:.200}"),
                (_, Some(h)) => format!("HARNESS {h:.200}"),
                _ if rep.log.iter().any(|l| l.starts_with("inconclusive")) => "inconclusive".into(),
                _ => "ok".into(),
            };
            *tally.entry(key).or_default() += 1;
        }
        println!("#{i} `{setup}` mean_steps={} {:.1} ms/run {tally:?}", steps as u64 / n.max(1), t0.elapsed().as_secs_f64() * 1000.0 / n.max(1) as f64);
    }
}

fn run_handshake(sc: &Scenario, mut rep: RunReport) -> RunReport {
    simplesl_verif_seams::fuel::reset(1500, 20_000);
    let mut interp = Interpreter::with_stdlib();
    match guarded(|| Code::parse(&interp, &sc.prog).map(|c| c.exec_unscoped(&mut interp))) {
        Ok(Ok(Ok(_))) => {}
        other => {
            rep.harness_error = Some(format!("handshake set-up `{}` failed: {:?}", sc.prog, other.map(|r| r.map(|r| r.map(|_| ()).map_err(|e| exec_err_name(&e))).map_err(|e| e.to_string()))));
            return rep;
        }
    }
    // (code, expected value) per statement; poller flag per thread
    let mut codes: Vec<Vec<(String, Code, Option<i64>)>> = Vec::new();
    let mut pollers = 0u64;
    let mut is_poller = Vec::new();
    for t in &sc.threads {
        let mut v = Vec::new();
        let mut poll = false;
        for op in t {
            let OpKind::Attack(text) = &op.kind else { continue };
            let (text, want) = match text.split_once(" @=> ") {
                Some((a, b)) => (a.to_string(), b.trim().parse::<i64>().ok()),
                None => (text.clone(), None),
            };
            let src = match text.strip_prefix("@poll ") {
                Some(s) => {
                    poll = true;
                    s.to_string()
                }
                None => text,
            };
            match guarded(|| Code::parse(&interp, &src)) {
                Ok(Ok(c)) => v.push((src, c, want)),
                other => {
                    rep.harness_error = Some(format!("handshake statement rejected: `{src}`: {:?}", other.map(|r| r.map(|_| ()).map_err(|e| e.to_string()))));
                    return rep;
                }
            }
        }
        pollers += poll as u64;
        is_poller.push(poll);
        codes.push(v);
    }
    let signallers = is_poller.iter().filter(|p| !**p).count();
    let shared = Arc::new(Shared {
        codes: vec![],
        hist: Mutex::new(vec![]),
        stamp: AtomicU64::new(signallers as u64),
        lock_policy: sc.lock_policy,
        lock_result: Mutex::new(None),
        results: Mutex::new(Vec::new()),
        inflight: Mutex::new(vec![None; sc.threads.len()]),
    });
    let codes = Arc::new(codes);
    let is_poller = Arc::new(is_poller);
    let sh = shared.clone();
    let cs = codes.clone();
    let exec = sched::run_once(sc.policy.clone(), sc.sched_seed, move || {
        sync::sim_begin(sh.lock_policy);
        let mut handles = Vec::new();
        for t in 0..cs.len() {
            let sh2 = sh.clone();
            let cs2 = cs.clone();
            let ip = is_poller.clone();
            handles.push(shuttle::thread::spawn(move || {
                for (i, (src, code, _)) in cs2[t].iter().enumerate() {
                    sh2.inflight.lock().unwrap()[t] = Some(format!("T{t} `{src}`"));
                    let r = match code.exec() {
                        Ok(v) => cvar(&v),
                        Err(e) => format!("Err({})", exec_err_name(&e)),
                    };
                    sh2.inflight.lock().unwrap()[t] = None;
                    sh2.results.lock().unwrap().push((t * 100 + i, r));
                }
                if !ip[t] && sh2.stamp.fetch_sub(1, Ordering::SeqCst) == 1 {
                    // the last signaller is done: everything the pollers wait for is established
                    simplesl_verif_seams::fuel::arm_progress(8 * pollers);
                }
            }));
        }
        for h in handles {
            h.join().unwrap();
        }
        *sh.lock_result.lock().unwrap() = Some(sync::sim_end());
    });
    sync::sim_abort();
    rep.choices = exec.choices.clone();
    rep.diverged = exec.diverged;
    rep.context_switches = exec.context_switches;
    if let Some((events, probes)) = shared.lock_result.lock().unwrap().take() {
        rep.lock_events = events.len() as u64;
        rep.schedule_digest = digest(&format!("{:?}", events.iter().map(|e| (e.actor, e.lock, e.kind as u8)).collect::<Vec<_>>()));
        rep.probes = probes;
    }
    let inflight: Vec<String> = shared.inflight.lock().unwrap_or_else(|p| p.into_inner()).iter().flatten().cloned().collect();
    match exec.verdict {
        Verdict::Completed => {}
        Verdict::Deadlock(m) => {
            rep.violation = Some(("deadlock".into(), format!("{m}; in flight: {}", inflight.join(" ; "))));
            return rep;
        }
        Verdict::Panic(m) if simplesl_verif_seams::fuel::is_stall_panic(&m) => {
            rep.violation = Some((
                "no-progress".into(),
                format!("after every signalling thread had finished, the polling thread(s) started more than {} further loop iterations without leaving the loop (set-up `{}`); still running: {}", 8 * pollers, sc.prog, inflight.join(" ; ")),
            ));
            return rep;
        }
        Verdict::Panic(m) if simplesl_verif_seams::fuel::is_fuel_panic(&m) => {
            // the poller used up the loop budget while a signaller was still under way: no verdict
            rep.log.push("inconclusive: loop budget used up before the signallers finished".into());
            rep.history_digest = digest("fuel");
            return rep;
        }
        Verdict::Panic(m) => {
            rep.violation = Some(("panic".into(), format!("{m}; in flight: {}", inflight.join(" ; "))));
            return rep;
        }
        Verdict::Harness(m) => {
            rep.harness_error = Some(m);
            return rep;
        }
    }
    let mut results = shared.results.lock().unwrap_or_else(|p| p.into_inner()).clone();
    results.sort();
    rep.events = results.len() as u64 + rep.lock_events;
    for (k, got) in &results {
        let (t, i) = (k / 100, k % 100);
        let (src, _, want) = &codes[t][i];
        rep.log.push(format!("T{t} `{src}` -> {got}"));
        if let Some(w) = want {
            if got != &w.to_string() {
                rep.violation = Some(("result-mismatch".into(), format!("T{t} `{src}` yielded {got} after the hand-over; it yields {w} in every interleaving (set-up `{}`)", sc.prog)));
                return rep;
            }
        }
    }
    rep.history_digest = digest(&format!("{results:?}"));
    os::uninstall();
    rep
}

fn run_indep(sc: &Scenario, mut rep: RunReport) -> RunReport {
    let interp = Interpreter::with_stdlib();
    // a text marked `@warm ` is executed once, sequentially, before the threads start: whatever the
    // process remembers about ITS types is warm, while the unmarked texts bring types it has never
    // seen (this makes the scenario self-contained: alone in a fresh process it meets the same
    // mixture of warm and cold state as in the middle of a worker's batch)
    let mut texts: Vec<String> = Vec::new();
    for t in sc.prog.split("\n@@\n") {
        match t.strip_prefix("@warm ") {
            Some(w) => {
                let _ = guarded(|| Code::parse(&interp, w).map(|c| c.exec()));
                texts.push(w.to_string());
            }
            None => texts.push(t.to_string()),
        }
    }
    os::with(|o| o.stdout.clear());
    let mut codes = Vec::new();
    for t in &texts {
        match guarded(|| Code::parse(&interp, t)) {
            Ok(Ok(c)) => codes.push(c),
            other => {
                rep.harness_error = Some(format!("independent program rejected: `{t}`: {:?}", other.map(|r| r.map(|_| ()).map_err(|e| e.to_string()))));
                return rep;
            }
        }
    }
    let codes = Arc::new(codes);
    let shared = Arc::new(Shared {
        codes: vec![],
        hist: Mutex::new(vec![]),
        stamp: AtomicU64::new(0),
        lock_policy: sc.lock_policy,
        lock_result: Mutex::new(None),
        results: Mutex::new(Vec::new()),
        inflight: Mutex::new(vec![]),
    });
    let sh = shared.clone();
    let cs = codes.clone();
    let exec = sched::run_once(sc.policy.clone(), sc.sched_seed, move || {
        sync::sim_begin(sh.lock_policy);
        let mut handles = Vec::new();
        for t in 0..cs.len() {
            let sh2 = sh.clone();
            let cs2 = cs.clone();
            handles.push(shuttle::thread::spawn(move || {
                let r = match cs2[t].exec() {
                    Ok(v) => cvar(&v),
                    Err(e) => format!("Err({})", exec_err_name(&e)),
                };
                sh2.results.lock().unwrap().push((t, r));
            }));
        }
        for h in handles {
            h.join().unwrap();
        }
        *sh.lock_result.lock().unwrap() = Some(sync::sim_end());
    });
    sync::sim_abort();
    rep.choices = exec.choices.clone();
    rep.diverged = exec.diverged;
    rep.context_switches = exec.context_switches;
    if let Some((events, probes)) = shared.lock_result.lock().unwrap().take() {
        rep.lock_events = events.len() as u64;
        rep.schedule_digest = digest(&format!("{:?}", events.iter().map(|e| (e.actor, e.lock, e.kind as u8)).collect::<Vec<_>>()));
        rep.probes = probes;
    }
    match exec.verdict {
        Verdict::Completed => {}
        Verdict::Deadlock(m) => {
            rep.violation = Some(("deadlock".into(), format!("{m} (threads running independent programs that share no value)")));
            return rep;
        }
        Verdict::Panic(m) => {
            rep.violation = Some(("panic".into(), format!("{m} (threads running independent programs that share no value)")));
            return rep;
        }
        Verdict::Harness(m) => {
            rep.harness_error = Some(m);
            return rep;
        }
    }
    let results = shared.results.lock().unwrap_or_else(|p| p.into_inner()).clone();
    rep.events = results.len() as u64 + rep.lock_events;
    for (t, got) in &results {
        let alone = match guarded(|| Code::parse(&interp, &texts[*t]).map(|c| c.exec())) {
            Ok(Ok(Ok(v))) => cvar(&v),
            Ok(Ok(Err(e))) => format!("Err({})", exec_err_name(&e)),
            other => {
                rep.harness_error = Some(format!("sequential reference of `{}` failed: {:?}", texts[*t], other.map(|_| ())));
                return rep;
            }
        };
        rep.log.push(format!("T{t} `{}` -> {got}", texts[*t]));
        if &alone != got {
            rep.violation = Some((
                "seq-differs".into(),
                format!("thread {t} running its own program `{}` (nothing shared with the other threads) computed {got}, alone it computes {alone}", texts[*t]),
            ));
            return rep;
        }
    }
    rep.history_digest = digest(&format!("{results:?}"));
    os::uninstall();
    rep
}

/// Templates of the independent programs; `{N}` is replaced by a run- and thread-unique number.
pub const INDEP_TEMPLATES: &[&str] = &[
    "it := [struct{u{N} := 1}, 7, (x: int) -> int|float { return x }]~; it(); it(); it(); (c, d) := it(); c",
    "f := (v: int|struct{w{N}: int}|[int|string]) -> int { return match v { i: int => 1, s: struct{w{N}: int} => 2, a: [int|string] => 3, } }; (f(1), f(struct{w{N} := 2}), f([1]))",
    "r := ([1, \"a{N}\", 2.5, struct{q{N} := 3}]~ ? int|struct{q{N}: int}) $]; std.len(r)",
    "x := mut int|struct{k{N}: int} 5; x = struct{k{N} := 1}; y := *x; if z: int = y { z } else { 0 - 1 }",
    "it := [(1, struct{t{N} := 2.5}), (\"s\", struct{t{N} := 1})]~ ? (string|bool, struct{t{N}: int|float}); (a, b) := it(); (c, d) := it(); (a, c)",
    "m := mod { v{N} := [1, \"x\"]; g{N} := (e: int|string) -> int|string { return e } }; (m.g{N}(m.v{N}[0]), m.g{N}(m.v{N}[1]))",
    // the same text in every run: whatever the process remembers about these types is warm from
    // the second run on, while the thread next to it brings types never seen before
    "it := [(x: int) -> int|float { return x }, 7]~; it(); it(); (c, d) := it(); c",
    "it := [([1, \"s\"], 2), \"z\", (x: int|string) -> [int|string] { return [x] }]~; it(); it(); it(); (c, d) := it(); c",
    "r := ([1, \"a\", 2.5, [1, \"b\"]]~ ? int|[int|string]) $]; std.len(r)",
    // reductions over different element kinds at the same time
    "a := [1, 2, 3]~ $+; b := []~ ? int $+; (a, b)",
    "a := [1.5, 2.5]~ $+; b := [0.5]~ $*; (a, b)",
    "a := [\"x\", \"y\"]~ $+; a",
    "a := [2, 3]~ $*; b := [true, false]~ $&&; c := [1, 2]~ $|; (a, b, c)",
    // deep (but bounded) recursion in several threads at once: what one thread may do does not
    // depend on how deep the others are
    "f := (n: int) -> int { if n <= 0 { return 0 } return 1 + f(n - 1) }; f(200)",
    "g := (n: int, acc: int) -> int { if n <= 0 { return acc } return g(n - 1, acc + n) }; g(180, 0)",
    "fib := (n: int) -> int { if n < 2 { return n } return fib(n - 1) + fib(n - 2) }; d := (n: int) -> int { if n <= 0 { return fib(6) } return d(n - 1) }; d(150)",
];

fn run_shared_code(sc: &Scenario, mut rep: RunReport) -> RunReport {
    if sc.mode == "indep" {
        return run_indep(sc, rep);
    }
    let interp = Interpreter::with_stdlib();
    let code = match guarded(|| Code::parse(&interp, &sc.prog)) {
        Ok(Ok(c)) => Arc::new(c),
        Ok(Err(e)) => {
            rep.harness_error = Some(format!("shared program rejected: {e}"));
            return rep;
        }
        Err(p) => {
            rep.harness_error = Some(format!("shared program panicked in parse: {p}"));
            return rep;
        }
    };
    if sc.mode == "shared_fn" {
        return run_shared_fn(sc, rep);
    }
    // sequential reference, plain mode - on a SEPARATELY parsed Code, so that the Code the threads
    // share has never been executed before they start (no sequential warm-up of lazily
    // initialised state inside instructions)
    let before = os::with(|o| o.stdout.len()).unwrap_or(0);
    let reference_code = match guarded(|| Code::parse(&interp, &sc.prog)) {
        Ok(Ok(c)) => c,
        _ => {
            rep.harness_error = Some("shared program does not parse a second time".into());
            return rep;
        }
    };
    let seq = match guarded(|| reference_code.exec()) {
        Ok(r) => match r {
            Ok(v) => cvar(&v),
            Err(e) => format!("Err({})", exec_err_name(&e)),
        },
        Err(p) => {
            rep.harness_error = Some(format!("sequential reference run panicked: {p}"));
            return rep;
        }
    };
    let seq_out: Vec<String> = os::with(|o| o.stdout[before..].iter().map(|(_, l)| l.clone()).collect()).unwrap_or_default();
    os::with(|o| o.stdout.clear());
    let n = sc.threads.len().max(2);
    let shared = Arc::new(Shared {
        codes: vec![],
        hist: Mutex::new(vec![]),
        stamp: AtomicU64::new(0),
        lock_policy: sc.lock_policy,
        lock_result: Mutex::new(None),
        results: Mutex::new(Vec::new()),
        inflight: Mutex::new(vec![]),
    });
    let sh = shared.clone();
    let code2 = code.clone();
    let exec = sched::run_once(sc.policy.clone(), sc.sched_seed, move || {
        sync::sim_begin(sh.lock_policy);
        let mut handles = Vec::new();
        for _ in 0..n {
            let sh2 = sh.clone();
            let c = code2.clone();
            handles.push(shuttle::thread::spawn(move || {
                let me = usize::from(shuttle::current::me());
                let r = match c.exec() {
                    Ok(v) => cvar(&v),
                    Err(e) => format!("Err({})", exec_err_name(&e)),
                };
                sh2.results.lock().unwrap().push((me, r));
            }));
        }
        for h in handles {
            h.join().unwrap();
        }
        *sh.lock_result.lock().unwrap() = Some(sync::sim_end());
    });
    sync::sim_abort();
    rep.choices = exec.choices.clone();
    rep.diverged = exec.diverged;
    rep.context_switches = exec.context_switches;
    if let Some((events, probes)) = shared.lock_result.lock().unwrap().take() {
        rep.lock_events = events.len() as u64;
        rep.schedule_digest = digest(&format!("{:?}", events.iter().map(|e| (e.actor, e.lock, e.kind as u8)).collect::<Vec<_>>()));
        rep.probes = probes;
    }
    match exec.verdict {
        Verdict::Completed => {}
        Verdict::Deadlock(m) => {
            rep.violation = Some(("deadlock".into(), m));
            return rep;
        }
        Verdict::Panic(m) => {
            rep.violation = Some(("panic".into(), m));
            return rep;
        }
        Verdict::Harness(m) => {
            rep.harness_error = Some(m);
            return rep;
        }
    }
    let results = shared.results.lock().unwrap().clone();
    rep.events = results.len() as u64 + rep.lock_events;
    let out = os::with(|o| o.stdout.clone()).unwrap_or_default();
    for (task, r) in &results {
        if *r != seq {
            rep.violation = Some(("seq-differs".into(), format!("thread (task {task}) computed {r} but a sequential run computes {seq}")));
            return rep;
        }
        let mine: Vec<String> = out.iter().filter(|(a, _)| a == task).map(|(_, l)| l.clone()).collect();
        if mine != seq_out {
            rep.violation = Some(("seq-differs".into(), format!("thread (task {task}) printed {mine:?} but a sequential run prints {seq_out:?}")));
            return rep;
        }
    }
    rep.history_digest = digest(&format!("{results:?}"));
    os::uninstall();
    rep
}

/// Threads share one Function value and call it with their OWN arguments (values of different
/// types, different arrays to iterate ...): no cell is shared; every call must return what the same
/// call returns sequentially. `prog` defines the function (its last expression); `threads[t]`
/// holds, as `Attack` texts, the argument lists of thread t's calls.
fn run_shared_fn(sc: &Scenario, mut rep: RunReport) -> RunReport {
    let build = |rep: &mut RunReport| -> Option<(Interpreter<'static>, Arc<simplesl::function::Function>)> {
        let mut interp = Interpreter::with_stdlib();
        let code = match guarded(|| Code::parse(&interp, &sc.prog)) {
            Ok(Ok(c)) => c,
            other => {
                rep.harness_error = Some(format!("shared function program rejected: {:?}", other.map(|r| r.map(|_| ()).map_err(|e| e.to_string()))));
                return None;
            }
        };
        match guarded(|| code.exec_unscoped(&mut interp)) {
            Ok(Ok(Variable::Function(f))) => Some((interp, f)),
            _ => {
                rep.harness_error = Some("shared function program did not yield a function".into());
                None
            }
        }
    };
    let arg_values = |interp: &Interpreter, text: &str| -> Option<Vec<Variable>> {
        // the argument list is evaluated as a tuple (one argument: a parenthesised expression)
        let code = Code::parse(interp, &format!("[{text}]")).ok()?;
        match code.exec().ok()? {
            Variable::Array(a) => Some(a.iter().cloned().collect()),
            _ => None,
        }
    };
    // sequential reference on its own function value
    let Some((ref_interp, ref_f)) = build(&mut rep) else { return rep };
    let mut want: Vec<Vec<String>> = Vec::new();
    for t in &sc.threads {
        let mut w = Vec::new();
        for op in t {
            let OpKind::Attack(text) = &op.kind else { continue };
            let Some(args) = arg_values(&ref_interp, text) else {
                rep.harness_error = Some(format!("argument list `{text}` does not evaluate"));
                return rep;
            };
            let r = match guarded(|| ref_f.clone().create_call(args).map(|c| c.exec())) {
                Ok(Ok(Ok(v))) => cvar(&v),
                Ok(Ok(Err(e))) => format!("Err({})", exec_err_name(&e)),
                Ok(Err(e)) => format!("rejected({})", crate::canon::cerror(&e)),
                Err(p) => {
                    rep.harness_error = Some(format!("sequential reference call panicked: {p}"));
                    return rep;
                }
            };
            w.push(r);
        }
        want.push(w);
    }
    os::with(|o| o.stdout.clear());
    // the shared function: never executed before the threads start
    let Some((interp, f)) = build(&mut rep) else { return rep };
    // the host calls themselves (`create_call` and `exec`) happen on the threads; only the argument
    // values are prepared beforehand
    let mut codes: Vec<Vec<(String, Vec<Variable>)>> = Vec::new();
    for t in &sc.threads {
        let mut v = Vec::new();
        for op in t {
            let OpKind::Attack(text) = &op.kind else { continue };
            let Some(args) = arg_values(&interp, text) else { continue };
            v.push((text.clone(), args));
        }
        codes.push(v);
    }
    let codes = Arc::new(codes);
    let shared = Arc::new(Shared {
        codes: vec![],
        hist: Mutex::new(vec![]),
        stamp: AtomicU64::new(0),
        lock_policy: sc.lock_policy,
        lock_result: Mutex::new(None),
        results: Mutex::new(Vec::new()),
        inflight: Mutex::new(vec![]),
    });
    let sh = shared.clone();
    let cs = codes.clone();
    let fshared = f.clone();
    let exec = sched::run_once(sc.policy.clone(), sc.sched_seed, move || {
        sync::sim_begin(sh.lock_policy);
        let mut handles = Vec::new();
        for t in 0..cs.len() {
            let sh2 = sh.clone();
            let cs2 = cs.clone();
            let f2 = fshared.clone();
            handles.push(shuttle::thread::spawn(move || {
                for (i, (_, args)) in cs2[t].iter().enumerate() {
                    let r = match f2.clone().create_call(args.clone()).map(|c| c.exec()) {
                        Ok(Ok(v)) => cvar(&v),
                        Ok(Err(e)) => format!("Err({})", exec_err_name(&e)),
                        Err(e) => format!("rejected({})", crate::canon::cerror(&e)),
                    };
                    sh2.results.lock().unwrap().push((t * 1000 + i, r));
                }
            }));
        }
        for h in handles {
            h.join().unwrap();
        }
        *sh.lock_result.lock().unwrap() = Some(sync::sim_end());
    });
    sync::sim_abort();
    rep.choices = exec.choices.clone();
    rep.diverged = exec.diverged;
    rep.context_switches = exec.context_switches;
    if let Some((events, probes)) = shared.lock_result.lock().unwrap().take() {
        rep.lock_events = events.len() as u64;
        rep.probes = probes;
    }
    rep.schedule_digest = digest(&format!("{:?}", exec.choices));
    let results = shared.results.lock().unwrap_or_else(|p| p.into_inner()).clone();
    for (k, r) in &results {
        rep.log.push(format!("T{} call {} `{}` -> {r}", k / 1000, k % 1000, codes[k / 1000][k % 1000].0));
    }
    match exec.verdict {
        Verdict::Completed => {}
        Verdict::Deadlock(_) => {
            rep.violation = Some(("deadlock".into(), "all threads blocked while calling a shared function with their own arguments".into()));
            return rep;
        }
        Verdict::Panic(m) => {
            rep.violation = Some(("panic".into(), format!("{m} (threads calling one shared function with their own arguments)")));
            return rep;
        }
        Verdict::Harness(m) => {
            rep.harness_error = Some(m);
            return rep;
        }
    }
    rep.events = results.len() as u64 + rep.lock_events;
    for (k, r) in &results {
        let (t, i) = (k / 1000, k % 1000);
        if want[t].get(i) != Some(r) {
            rep.violation = Some((
                "seq-differs".into(),
                format!("thread {t}: the call ({}) on the shared function returned {r} but sequentially it returns {:?}", codes[t][i].0, want[t].get(i)),
            ));
            return rep;
        }
    }
    rep.history_digest = digest(&format!("{results:?}"));
    os::uninstall();
    rep
}

/// (program whose last expression is the shared function, argument lists to draw from)
pub const SHARED_FNS: &[(&str, &[&str])] = &[
    (
        "f := (x: int|string|float|[int]|bool) -> string { return match x { i: int => \"int\", s: string => \"string\", d: float => \"float\", a: [int] => \"ints\", b: bool => \"bool\", } }; f",
        &["7", "\"s\"", "2.5", "[1, 2]", "true", "0", "\"\""],
    ),
    (
        "g := (xs: [int|string|float]) -> [int] { return (xs~ ? int) $] }; g",
        &["[1, \"a\", 2]", "[\"b\"]", "[3, 4, 5]", "[2.5, 6]", "[]"],
    ),
    (
        "h := (x: int|float, y: int|float) -> int { a := if v: int = x { v } else { 0 }; b := if w: int = y { w * 10 } else { 0 }; return a + b }; h",
        &["1, 2", "1.5, 2", "3, 4.5", "0.5, 0.5", "7, 7"],
    ),
    (
        "s := (xs: [int], k: int) -> int { return (xs~ @ (v: int) -> int { return v * k } ? (v: int) -> bool { return v % 2 == 0 }) $+ }; s",
        &["[1, 2, 3], 2", "[5], 3", "[], 9", "[2, 4, 6, 8], 1", "[7, 7], 4"],
    ),
    (
        "r := (v: any) -> string { return std.convert.to_string([[v, [v]], (v, [[v]])]) }; r",
        &["1", "\"deep\"", "[[1]]", "(1, (2, (3, 4)))", "2.5"],
    ),
    (
        "p := (xs: [int|string]) -> ([int|string], [int|string]) { return xs~ \\ (v: int|string) -> bool { return if q: int = v { true } else { false } } }; p",
        &["[1, \"a\"]", "[\"b\", \"c\"]", "[2, 3]", "[]"],
    ),
    (
        "d := (t: (int, string)|(float, bool)|(string, int, int)) -> any { return match t { a: (int, string) => a.0, b: (float, bool) => b.1, c: (string, int, int) => c.2, } }; d",
        &["(1, \"s\")", "(2.5, true)", "(\"q\", 5, 6)", "(9, \"z\")"],
    ),
];

// ---------------------------------------------------------------------------------------------
// workload swarm

pub const SHARED_PROGS: &[&str] = &[
    // a recursive named function whose frame holds more than a handful of variables
    "walk := (n: int, a: int, b: int, c: int) -> int { if n < 1 return a + b + c; d := a + 1; e := b + 2; f := c + 3; g := d + e + f; return walk(n - 1, d, e, f) + g - g; }; (walk(5, 1, 1, 1), walk(2, 0, 0, 0))",
    "deep := (n: int, acc: [int], tag: string, flag: bool) -> [int] { if n < 1 return acc; x := n * 2; y := x + 1; z := [x, y]; w := acc + z; return deep(n - 1, w, tag + \"x\", !flag); }; std.len(deep(4, [], \"t\", true))",
    // cells created inside loop bodies (every iteration and every run gets its own)
    "s := mut 0; for e in [1, 2, 3]~ { t := mut e; t += 1; s += *t }; *s",
    "acc := mut [mut int] []; i := mut 0; while *i < 3 { i += 1; acc += [mut *i] }; q := *acc; q[0] += 10; (*q[0], *q[1], *q[2])",
    "f := (n: int) -> int { r := mut 0; k := mut 0; loop { k += 1; if *k > n { break }; w := mut *k; w *= 2; r += *w }; return *r }; (f(2), f(3))",
    "i := mut 0; s := mut 0; while *i < 6 { i += 1; s += *i }; *s",
    "it := [3, 1, 2]~; f := (x: int) -> int { return x * 2 }; (it @ f) $]",
    "c := mut [int] []; for e in [1, 2, 3]~ { c += [e * e] }; *c",
    "mk := () -> mut int { return mut 0 }; a := mk(); b := mk(); a += 2; b += 3; (*a, *b, a == b)",
    "fib := (n: int) -> int { if n < 2 { return n } return fib(n - 1) + fib(n - 2) }; fib(7)",
    "acc := mut \"\"; for w in [\"a\", \"b\", \"c\"]~ { acc += w }; std.io.print(*acc); *acc",
    "x := mut any 0; x = \"s\"; x = [1]; std.convert.to_string(x)",
    "it := [1, 2, 3, 4, 5, 6]~ ? (x: int) -> bool { return x % 2 == 0 }; it $+",
    "c := mut 10; g := () -> int { c -= 1; return *c }; (g(), g(), [g(), g()])",
    "p := [5, 1, 4]~ \\ (x: int) -> bool { return x > 2 }; p",
    "c := mut 1; d := c; d *= 5; c <<= 1; (*c, *d, c == d)",
    "n := mut 0; loop { n += 1; if *n > 4 { break } }; ([1, \"a\", 2.5]~ ? int) $]",
    "a := [true, true, false]~ $&&; b := [false, true]~ $||; c := [12, 10]~ $&; d := [1, 2, 4]~ $|; (a, b, c, d)",
    "p := [2, 3, 4]~ $*; q := [1.5, 2.0]~ $+; r := [1, 2, 3]~ $100 (acc: int, x: int) -> int { return acc - x }; (p, q, r)",
    "s := std.operators.int_sum([1, 2, 3]~); t := std.operators.string_sum([\"a\", \"b\"]~); u := std.operators.all([true, false]~); (s, t, u, std.len([1, 2]))",
    "c := mut 7; deep := mut [[[[c]]]]; a := std.convert.to_string(deep); std.io.print(deep); t := ((((c, 1), 2), 3), [[c]]); (a, std.convert.to_string(t))",
    "k := mut \"s\"; n1 := mut [k]; n2 := mut [n1]; n3 := mut [n2]; n4 := mut [n3]; (std.convert.to_string(n4), std.convert.to_string([[[[n2]]]]))",
    "cnt := mut 0; it := () -> (bool, int) { cnt += 1; return (*cnt <= 4, *cnt) }; ev := it ? (x: int) -> bool { return x % 2 == 0 }; sq := ev @ (x: int) -> int { return x * x }; (sq $], *cnt)",
];

/// Draws one concurrent scenario from the run's seed (swarm: thread count, ops, cells, policy).
pub fn gen_concurrent(seed: u64, boot_seed: u64, run: u64) -> Scenario {
    let mut rng = Rng::new(derive_n(seed, "c16-workload", run));
    let key_seed = derive_n(seed, "c16-keys", run);
    let sched_seed = derive_n(seed, "c16-schedule", run);
    let shared_code = rng.chance(1, 4);
    let nthreads = if rng.chance(1, 3) { 3 } else { 2 };
    let policy = match rng.below(5) {
        0 => Policy::Random { stick: 0 },
        1 => Policy::Random { stick: 8 },
        2 => Policy::Random { stick: 13 },
        k => Policy::Pct { depth: k - 1 + rng.below(2), est_steps: 10 + rng.below(60) },
    };
    if rng.chance(1, 24) {
        // bounded liveness: pollers and signallers over host cells, fair random scheduling only
        let (setup, threads) = HANDSHAKES[rng.below(HANDSHAKES.len())];
        let threads = threads.iter().map(|t| t.iter().map(|s| Op { cell: 0, path: 0, kind: OpKind::Attack(s.to_string()) }).collect()).collect();
        let policy = Policy::Random { stick: [0u8, 4, 8][rng.below(3)] };
        return Scenario { boot_seed, key_seed, mode: "handshake".into(), threads, prog: setup.to_string(), policy, sched_seed, lock_policy: 0 };
    }
    if shared_code && rng.chance(1, 4) {
        // independent programs over types this process has never seen; two threads may share a number
        let base = run * 8;
        let progs: Vec<String> = (0..nthreads)
            .map(|t| {
                let n = if t > 0 && rng.chance(1, 4) { base } else { base + t as u64 };
                let tpl = INDEP_TEMPLATES[rng.below(INDEP_TEMPLATES.len())];
                if tpl.contains("{N}") {
                    tpl.replace("{N}", &n.to_string())
                } else {
                    format!("@warm {tpl}")
                }
            })
            .collect();
        return Scenario { boot_seed, key_seed, mode: "indep".into(), threads: (0..nthreads).map(|_| vec![]).collect(), prog: progs.join("\n@@\n"), policy, sched_seed, lock_policy: 0 };
    }
    if shared_code && rng.chance(1, 2) {
        let (prog, pool) = SHARED_FNS[rng.below(SHARED_FNS.len())];
        let calls = 1 + rng.below(3);
        // half of the threads repeat one argument list (an implementation that remembers its last
        // call meets the same arguments again while another thread interleaves different ones)
        let threads = (0..nthreads)
            .map(|_| {
                let fixed = if rng.chance(1, 2) { Some(rng.below(pool.len())) } else { None };
                (0..calls + fixed.map_or(0, |_| 1)).map(|_| Op { cell: 0, path: 0, kind: OpKind::Attack(pool[fixed.unwrap_or_else(|| rng.below(pool.len()))].to_string()) }).collect()
            })
            .collect();
        return Scenario { boot_seed, key_seed, mode: "shared_fn".into(), threads, prog: prog.to_string(), policy, sched_seed, lock_policy: 0 };
    }
    if shared_code {
        return Scenario {
            boot_seed,
            key_seed,
            mode: "shared_code".into(),
            threads: vec![vec![]; nthreads],
            prog: SHARED_PROGS[rng.below(SHARED_PROGS.len())].to_string(),
            policy,
            sched_seed,
            lock_policy: 0,
        };
    }
    // swarm: focus on few cells so that threads really collide
    let focus = match rng.below(6) {
        0 => vec![0],
        1 => vec![0, 7],
        2 => vec![[0usize, 1, 2, 3, 4, 5, 6, 7, 8, 10, 11][rng.below(11)]],
        3 => vec![[0usize, 3, 4], [10, 11, 4], [10, 10, 0]][rng.below(3)].to_vec(),
        4 => vec![6, 0],
        _ => vec![],
    };
    let repoint = rng.chance(1, 7);
    let transfer_heavy = !repoint && rng.chance(1, 7);
    let focus = if repoint {
        vec![9, 0, 9, 7]
    } else if transfer_heavy {
        vec![0, 7, 8][..2 + rng.below(2)].to_vec()
    } else {
        focus
    };
    let cfg = GenCfg {
        concurrent: true,
        repoint,
        transfer_heavy,
        fail_rate: [0, 100, 300][rng.below(3)],
        cells: focus,
        allow_show: rng.chance(2, 3),
        allow_self: rng.chance(1, 3),
        allow_pull: rng.chance(1, 4),
        pull_heavy: !repoint && !transfer_heavy && rng.chance(1, 12),
        cn_heavy: !repoint && !transfer_heavy && rng.chance(1, 12),
    };
    let mut unique = 1000 * (1 + rng.below(50) as i64);
    let ops_per = 1 + rng.below(4);
    let threads = (0..nthreads).map(|_| (0..ops_per).map(|_| gen_op(&mut rng, &cfg, &mut unique)).collect()).collect();
    Scenario { boot_seed, key_seed, mode: "cells".into(), threads, prog: String::new(), policy, sched_seed, lock_policy: 0 }
}

pub fn gen_sequential(seed: u64, boot_seed: u64, run: u64) -> Scenario {
    let mut rng = Rng::new(derive_n(seed, "c13-workload", run));
    let key_seed = derive_n(seed, "c13-keys", run);
    let focus = match rng.below(5) {
        0 => vec![0, 9, 7, 8],
        1 => vec![rng.below(10)],
        2 => vec![0, 1, 2, 3, 4, 5, 6],
        _ => vec![],
    };
    let cfg = GenCfg {
        concurrent: false,
        repoint: false,
        transfer_heavy: false,
        fail_rate: [0, 150, 400][rng.below(3)],
        cells: focus,
        allow_show: true,
        allow_self: rng.chance(1, 2),
        allow_pull: rng.chance(1, 3),
        pull_heavy: false,
        cn_heavy: false,
    };
    let mut unique = 100 * (1 + rng.below(50) as i64);
    let n = 5 + rng.below(36);
    let attack_rate = [0u64, 1, 3][rng.below(3)];
    let ops = (0..n)
        .map(|_| {
            if rng.chance(attack_rate, 10) {
                if rng.chance(1, 3) {
                    Op { cell: 0, path: 0, kind: OpKind::Attack(matrix_attack(&mut rng)) }
                } else {
                    Op { cell: 0, path: 0, kind: OpKind::Attack(ATTACKS[rng.below(ATTACKS.len())].to_string()) }
                }
            } else {
                gen_op(&mut rng, &cfg, &mut unique)
            }
        })
        .collect();
    Scenario { boot_seed, key_seed, mode: "cells".into(), threads: vec![ops], prog: String::new(), policy: Policy::Random { stick: 0 }, sched_seed: 0, lock_policy: 0 }
}

pub fn run_scenario(sc: &Scenario) -> RunReport {
    crate::run::note_current(|| sc.to_json());
    if sc.threads.len() <= 1 && sc.mode == "cells" {
        run_sequential(sc)
    } else {
        run_concurrent(sc)
    }
}

pub fn trace_digest(rep: &RunReport) -> String {
    format!("{:016x}", digest(&format!("{:?}#{:?}#{:?}", rep.log, rep.violation, rep.choices)))
}

pub fn report_json(rep: &RunReport) -> Value {
    json!({
        "trace_digest": trace_digest(rep),
        "violation": rep.violation.as_ref().map(|(c, d)| json!([c, d])),
        "choices": rep.choices, "diverged": rep.diverged, "events": rep.events, "lock_events": rep.lock_events,
        "log": rep.log, "harness_error": rep.harness_error, "rejected_ops": rep.rejected_ops,
    })
}

// ---------------------------------------------------------------------------------------------
// worker / single / minimise

fn explicit(sc: &Scenario, rep: &RunReport) -> Scenario {
    let mut s = sc.clone();
    if sc.threads.len() > 1 || sc.mode == "shared_code" {
        s.policy = Policy::List(rep.choices.clone());
    }
    s
}

/// `simctl worker cellsim`: input {property, tier, seed, boot_seed, shard, shards, runs}
pub fn worker(input: &Value) -> Value {
    let property = input["property"].as_str().unwrap();
    let seed = input["seed"].as_u64().unwrap();
    let boot_seed = input["boot_seed"].as_u64().unwrap();
    let shard = input["shard"].as_u64().unwrap();
    let shards = input["shards"].as_u64().unwrap();
    let runs = input["runs"].as_u64().unwrap();
    crate::boot::boot(boot_seed);
    let mut violations = Vec::new();
    let mut harness_errors = Vec::new();
    let mut n = 0u64;
    let mut events = 0u64;
    let mut lock_events = 0u64;
    let mut switches = 0u64;
    let mut sched_digests = std::collections::BTreeSet::new();
    let mut hist_digests = std::collections::BTreeSet::new();
    let mut ops: std::collections::BTreeMap<String, u64> = Default::default();
    let mut probes = sync::Probes::default();
    let mut failing = 0u64;
    let mut overlapped = 0u64;
    let mut rejected: std::collections::BTreeMap<String, u64> = Default::default();
    let mut policies: std::collections::BTreeMap<String, u64> = Default::default();
    let mut modes: std::collections::BTreeMap<String, u64> = Default::default();
    let mut samples = Vec::new();
    let mut determinism_checked = 0u64;
    let want_trace = input["trace"].as_bool().unwrap_or(false);
    let mut trace: Vec<Value> = Vec::new();
    let mut abandoned = 0;
    let mut run = shard;
    while run < runs {
        let sc = if property == "C13" { gen_sequential(seed, boot_seed, run) } else { gen_concurrent(seed, boot_seed, run) };
        let rep = run_scenario(&sc);
        n += 1;
        if want_trace {
            trace.push(json!([run, trace_digest(&rep), explicit(&sc, &rep).to_json()]));
        }
        events += rep.events;
        lock_events += rep.lock_events;
        switches += rep.context_switches;
        sched_digests.insert(rep.schedule_digest);
        hist_digests.insert(rep.history_digest);
        for (k, c) in &rep.ops_by_kind {
            *ops.entry(k.clone()).or_default() += c;
        }
        for r in &rep.rejected_ops {
            *rejected.entry(r.clone()).or_default() += 1;
        }
        *modes.entry(if rep.log.iter().any(|l| l.starts_with("inconclusive")) { format!("{}/inconclusive", sc.mode) } else { sc.mode.clone() }).or_default() += 1;
        *policies
            .entry(match &sc.policy {
                Policy::Random { stick } => format!("random/stick{stick}"),
                Policy::Pct { depth, .. } => format!("pct/d{depth}"),
                Policy::List(_) => "list".into(),
            })
            .or_default() += 1;
        probes.reader_behind_queued_writer += rep.probes.reader_behind_queued_writer;
        probes.nested_read += rep.probes.nested_read;
        probes.writer_waited += rep.probes.writer_waited;
        probes.reader_waited += rep.probes.reader_waited;
        probes.reads += rep.probes.reads;
        probes.writes += rep.probes.writes;
        failing += rep.failing_ops_fired;
        overlapped += rep.overlapped_rmw;
        if let Some(h) = &rep.harness_error {
            harness_errors.push(json!({"what": h, "scenario": sc.to_json()}));
            // circuit breaker: a run the watchdog had to abandon left a thread blocked on state
            // of the code under test; if that state is process-wide, every later run of this
            // worker blocks on it too (a minute each). Two abandoned runs end the worker: what it
            // found so far is reported, the rest of its share is not run.
            if h.contains(crate::run::WATCHDOG) {
                abandoned += 1;
                if abandoned >= 2 {
                    harness_errors.push(json!({"what": "worker stopped after two abandoned runs", "runs_done": n, "runs_planned": runs / shards}));
                    break;
                }
            }
        }
        // determinism: every 64th run is executed again from its explicit record
        if run % 64 == shard % 64 && rep.harness_error.is_none() {
            let again = run_scenario(&explicit(&sc, &rep));
            determinism_checked += 1;
            if again.log != rep.log || again.violation != rep.violation || again.diverged {
                harness_errors.push(json!({"what": "replay of the explicit record differs from the original run", "scenario": sc.to_json(), "first": rep.log, "second": again.log}));
            }
        }
        if let Some((class, detail)) = &rep.violation {
            if violations.len() < 6 {
                violations.push(json!({"class": class, "detail": detail, "subject_id": format!("run{run}"), "scenario": explicit(&sc, &rep).to_json(), "log": rep.log}));
            }
        }
        if samples.len() < 2 && rep.events > 3 {
            samples.push(json!({"scenario": sc.to_json(), "log": rep.log, "schedule": rep.choices}));
        }
        run += shards;
    }
    json!({
        "boot_seed": boot_seed, "runs": n, "events": events, "lock_events": lock_events, "context_switches": switches,
        "sched_digests": sched_digests.iter().map(|d| format!("{d:016x}")).collect::<Vec<_>>(),
        "hist_digests": hist_digests.iter().map(|d| format!("{d:016x}")).collect::<Vec<_>>(),
        "ops": ops, "rejected": rejected, "policies": policies, "modes": modes, "failing_ops_fired": failing, "overlapped_rmw_pairs": overlapped,
        "probes": {"reader_behind_queued_writer": probes.reader_behind_queued_writer, "nested_read": probes.nested_read,
                   "writer_waited": probes.writer_waited, "reader_waited": probes.reader_waited, "reads": probes.reads, "writes": probes.writes},
        "violations": violations, "harness_errors": harness_errors, "samples": samples, "determinism_checked": determinism_checked, "trace": trace,
    })
}

/// `simctl single cellsim`: input = explicit scenario; output = report
pub fn single(input: &Value) -> Value {
    let sc = Scenario::from_json(input);
    crate::boot::boot(sc.boot_seed);
    report_json(&run_scenario(&sc))
}

fn same_class(rep: &RunReport, class: &str) -> bool {
    rep.violation.as_ref().map_or(false, |(c, _)| c == class)
}

/// Tries to reproduce `class` on a (smaller) workload: the recorded schedule first, then a seeded
/// re-search over schedulers. Returns the failing explicit scenario.
fn find_failing(sc: &Scenario, class: &str, budget: u64) -> Option<(Scenario, RunReport)> {
    let rep = run_scenario(sc);
    if same_class(&rep, class) {
        return Some((explicit(sc, &rep), rep));
    }
    if sc.threads.len() <= 1 && sc.mode == "cells" {
        return None;
    }
    if sc.mode == "shared_fn" && sc.threads.iter().all(|t| t.is_empty()) {
        return None;
    }
    for i in 0..budget {
        let mut s = sc.clone();
        s.sched_seed = derive_n(sc.sched_seed ^ 0xD0D0, "research", i);
        s.policy = match if sc.mode == "handshake" { i % 2 } else { i % 4 } {
            0 => Policy::Random { stick: 0 },
            1 => Policy::Random { stick: if sc.mode == "handshake" { 6 } else { 10 } },
            2 => Policy::Pct { depth: 2, est_steps: 24 },
            _ => Policy::Pct { depth: 3, est_steps: 40 },
        };
        let rep = run_scenario(&s);
        if same_class(&rep, class) {
            return Some((explicit(&s, &rep), rep));
        }
    }
    None
}

/// `simctl minimise cellsim`: input {scenario, class}; output {scenario, detail, log, steps}
pub fn minimise(input: &Value) -> Value {
    let mut sc = Scenario::from_json(&input["scenario"]);
    let class = input["class"].as_str().unwrap().to_string();
    crate::boot::boot(sc.boot_seed);
    let mut trials = 0u64;
    // the recorded schedule first; if it no longer fails (the worker that found it had run
    // thousands of scenarios before: whatever process-wide state the code under test keeps was
    // different there), search schedules again in this fresh process - the replay file then holds
    // a schedule that fails from a cold start
    let Some((mut best, mut best_rep)) = find_failing(&sc, &class, 0).or_else(|| find_failing(&sc, &class, 600)) else {
        return json!({"reproduced": false});
    };
    if sc.mode == "cells" || sc.mode == "shared_fn" {
        // flatten (thread, op) pairs, ddmin over them
        let flat: Vec<(usize, Op)> = sc.threads.iter().enumerate().flat_map(|(t, ops)| ops.iter().map(move |o| (t, o.clone()))).collect();
        let nthreads = sc.threads.len();
        let min = crate::ddmin::ddmin(&flat, |cand| {
            trials += 1;
            let mut threads = vec![Vec::new(); nthreads];
            for (t, o) in cand {
                threads[*t].push(o.clone());
            }
            let mut s = sc.clone();
            s.threads = threads;
            match find_failing(&s, &class, 120) {
                Some((b, r)) => {
                    best = b;
                    best_rep = r;
                    true
                }
                None => false,
            }
        });
        let mut threads = vec![Vec::new(); nthreads];
        for (t, o) in &min {
            threads[*t].push(o.clone());
        }
        sc.threads = threads;
        // simplify arguments: unique operands -> 1
        let _ = &sc;
    }
    json!({"reproduced": true, "scenario": best.to_json(), "detail": best_rep.violation.as_ref().map(|v| v.1.clone()), "log": best_rep.log, "trials": trials})
}
