//! `hashsim` (DESIGN §4.1 / §4.2): the whole pipeline parse -> check -> fold -> exec -> render for one
//! subject inside one fresh OS thread whose every `RandomState` derives from the run's key seed.
//! Searched dimensions: run keys x boot keys (another process) x "after unrelated work" prefixes.
//! Oracles: O1 same seed => identical raw record; O2 all seeds => identical canonical record;
//! O3 type-operation answers identical across seeds and equal-by-structure => `==`.
use crate::canon::{cerror, cexec_error, ctype, cvar};
use crate::corpus::{self, Prog};
use crate::prng::{derive, derive_n, digest, Rng};
use crate::run::{guarded, on_fresh_thread};
use crate::universe::{self, Ty};
use serde_json::{json, Value};
use simplesl::variable::{ReturnType, Type};
use simplesl::{Code, Interpreter};
use simplesl_verif_seams::os;
use std::collections::HashSet;
use std::str::FromStr;

// ---------------------------------------------------------------------------------------------
// subjects

#[derive(Clone, Debug)]
pub enum Subject {
    Program { name: String, text: String },
    TypeOps { a: Ty, b: Ty },
    RoundTrip { t: Ty },
    TypeFilter { t: Ty },
}

pub fn ty_to_json(t: &Ty) -> Value {
    match t {
        Ty::Bool => json!("bool"),
        Ty::Int => json!("int"),
        Ty::Float => json!("float"),
        Ty::Str => json!("string"),
        Ty::Void => json!("()"),
        Ty::Any => json!("any"),
        Ty::Never => json!("!"),
        Ty::Arr(e) => json!({"arr": ty_to_json(e)}),
        Ty::Mut(e) => json!({"mut": ty_to_json(e)}),
        Ty::Tup(ts) => json!({"tup": ts.iter().map(ty_to_json).collect::<Vec<_>>()}),
        Ty::Union(ts) => json!({"union": ts.iter().map(ty_to_json).collect::<Vec<_>>()}),
        Ty::Struct(fs) => json!({"struct": fs.iter().map(|(k, t)| json!([k, ty_to_json(t)])).collect::<Vec<_>>()}),
        Ty::Fun(ps, r) => json!({"fun": [ps.iter().map(ty_to_json).collect::<Vec<_>>(), ty_to_json(r)]}),
    }
}

pub fn ty_from_json(v: &Value) -> Ty {
    if let Some(s) = v.as_str() {
        return match s {
            "bool" => Ty::Bool,
            "int" => Ty::Int,
            "float" => Ty::Float,
            "string" => Ty::Str,
            "()" => Ty::Void,
            "any" => Ty::Any,
            "!" => Ty::Never,
            other => panic!("bad ty atom {other}"),
        };
    }
    let o = v.as_object().expect("ty object");
    let (k, x) = o.iter().next().expect("ty key");
    let list = |x: &Value| x.as_array().unwrap().iter().map(ty_from_json).collect::<Vec<_>>();
    match k.as_str() {
        "arr" => Ty::Arr(Box::new(ty_from_json(x))),
        "mut" => Ty::Mut(Box::new(ty_from_json(x))),
        "tup" => Ty::Tup(list(x)),
        "union" => Ty::Union(list(x)),
        "struct" => Ty::Struct(
            x.as_array()
                .unwrap()
                .iter()
                .map(|p| (p[0].as_str().unwrap().to_string(), ty_from_json(&p[1])))
                .collect(),
        ),
        "fun" => Ty::Fun(list(&x[0]), Box::new(ty_from_json(&x[1]))),
        other => panic!("bad ty key {other}"),
    }
}

impl Subject {
    pub fn to_json(&self) -> Value {
        match self {
            Subject::Program { name, text } => json!({"kind": "program", "name": name, "text": text}),
            Subject::TypeOps { a, b } => json!({"kind": "typeops", "a": ty_to_json(a), "b": ty_to_json(b), "a_src": a.src(), "b_src": b.src()}),
            Subject::RoundTrip { t } => json!({"kind": "roundtrip", "t": ty_to_json(t), "src": t.src()}),
            Subject::TypeFilter { t } => json!({"kind": "typefilter", "t": ty_to_json(t), "src": t.src()}),
        }
    }
    pub fn from_json(v: &Value) -> Subject {
        match v["kind"].as_str().unwrap() {
            "program" => Subject::Program {
                name: v["name"].as_str().unwrap().to_string(),
                text: v["text"].as_str().unwrap().to_string(),
            },
            "typeops" => Subject::TypeOps { a: ty_from_json(&v["a"]), b: ty_from_json(&v["b"]) },
            "roundtrip" => Subject::RoundTrip { t: ty_from_json(&v["t"]) },
            "typefilter" => Subject::TypeFilter { t: ty_from_json(&v["t"]) },
            k => panic!("bad subject kind {k}"),
        }
    }
    pub fn id(&self) -> String {
        match self {
            Subject::Program { name, text } => format!("P:{name}:{:016x}", digest(text)),
            Subject::TypeOps { a, b } => format!("T:{}  ~  {}", a.src(), b.src()),
            Subject::RoundTrip { t } => format!("R:{}", t.src()),
            Subject::TypeFilter { t } => format!("F:{}", t.src()),
        }
    }
}

// ---------------------------------------------------------------------------------------------
// outcome of one run

#[derive(Clone, Debug, Default)]
pub struct Outcome {
    /// canonical record: must be identical for all seeds
    pub canon: String,
    /// raw record (crate's own renderings): must be identical for equal seeds
    pub raw: String,
    /// violations visible inside a single run (class, detail)
    pub direct: Vec<(String, String)>,
    /// logical events of the run (parse / exec / type operations)
    pub events: u64,
    /// C15 only: the text the type printed as under this seed
    pub printed: Option<String>,
}

/// set by `single` for a scenario marked "cold"
pub static COLD_PROCESS: std::sync::atomic::AtomicBool = std::sync::atomic::AtomicBool::new(false);

fn run_program(text: &str, stdout_canon: bool) -> Outcome {
    let mut sim_os = os::SimOs::new();
    // module files for programs that import (the module sees the importer's scope)
    sim_os.nodes.insert("lib".into(), os::Node::File(b"doubled := factor * 2; tag := \"lib\"".to_vec()));
    sim_os.nodes.insert("modp".into(), os::Node::File(b"a := 1; f := (x: int) -> int { return x + a }; s := \"t\"".to_vec()));
    sim_os.nodes.insert("modu".into(), os::Node::File(b"pick := (k: bool) -> int|string|float { if k { return 1 } return \"s\" }; both := [pick(true), pick(false)]".to_vec()));
    os::install(sim_os);
    let mut out = Outcome::default();
    // in a cold process a program that never mentions `std` is parsed by a host that never loaded
    // the standard library (whatever the library's lazy statics would have initialised is then
    // initialised by the program itself, in the middle of its own parse)
    let interp = if COLD_PROCESS.load(std::sync::atomic::Ordering::Relaxed) && !text.contains("std") { Interpreter::without_stdlib() } else { Interpreter::with_stdlib() };
    let parsed = guarded(|| Code::parse(&interp, text));
    out.events += 1;
    match parsed {
        Err(p) => {
            out.canon = "PANIC@parse".into();
            out.raw = format!("PANIC@parse {p}");
        }
        Ok(Err(e)) => {
            out.canon = format!("REJECT {}", cerror(&e));
            out.raw = format!("REJECT {e}");
        }
        Ok(Ok(code)) => {
            let st = code.return_type();
            let res = guarded(|| code.exec());
            out.events += 1;
            match res {
                Err(p) => {
                    out.canon = format!("ACCEPT type={} PANIC@exec", ctype(&st));
                    out.raw = format!("ACCEPT type={st} PANIC@exec {p}");
                }
                Ok(Err(e)) => {
                    out.canon = format!("ACCEPT type={} {}", ctype(&st), cexec_error(&e));
                    out.raw = format!("ACCEPT type={st} ERR {e}");
                }
                Ok(Ok(v)) => {
                    out.canon = format!("ACCEPT type={} value={}", ctype(&st), cvar(&v));
                    out.raw = format!("ACCEPT type={st} value={v:?}");
                    // the same parsed program once more: a program is a function of its text, also
                    // the second time (state kept inside instructions shows here)
                    if let Ok(Ok(v2)) = guarded(|| code.exec()) {
                        out.events += 1;
                        if cvar(&v2) != cvar(&v) {
                            out.direct.push(("repeat-exec-differs".into(), format!("first execution yields {}, the second execution of the same parsed program {}", cvar(&v), cvar(&v2))));
                        }
                    }
                }
            }
        }
    }
    let sim = os::uninstall().unwrap();
    let lines: Vec<String> = sim.stdout.iter().map(|(_, l)| l.clone()).collect();
    out.events += lines.len() as u64;
    if stdout_canon {
        // a printed line that may contain a union or struct rendering is compared as a multiset of
        // characters: the only variation the property permits is the order of members / fields
        let canon_lines: Vec<String> = lines
            .iter()
            .map(|l| {
                if l.contains('|') || l.contains("struct{") {
                    let mut cs: Vec<char> = l.chars().collect();
                    cs.sort_unstable();
                    cs.into_iter().collect()
                } else {
                    l.clone()
                }
            })
            .collect();
        out.canon.push_str(&format!(" stdout#{}={:016x}", lines.len(), digest(&canon_lines.join("\n"))));
    }
    out.raw.push_str(&format!(" stdout={lines:?}"));
    out
}

fn opt_t(t: Option<Type>) -> String {
    t.map(|t| ctype(&t)).unwrap_or_else(|| "None".into())
}

fn run_typeops(a: &Ty, b: &Ty) -> Outcome {
    let mut out = Outcome::default();
    let r = guarded(|| {
        let mut direct: Vec<(String, String)> = Vec::new();
        let mut canon = Vec::new();
        let mut raw = Vec::new();
        let mut ev = 0u64;
        let a_src = a.src();
        let b_src = b.src();
        let a1 = Type::from_str(&a_src);
        let a2 = Type::from_str(&a_src);
        let b1 = Type::from_str(&b_src);
        let (Ok(a1), Ok(a2), Ok(b1)) = (a1, a2, b1) else {
            return (format!("PARSE-FAIL {a_src} / {b_src}"), String::new(), direct, 1);
        };
        let a3 = a.build();
        let b3 = b.build();
        ev += 5;
        // cross questions first, and once more at the very end: an answer must not change within a
        // run (a memo keyed by something that forgets part of the question gives the later of two
        // different questions the earlier one's answer)
        let pre = (a1.matches(&b1), b1.matches(&a1), a1 == b1, b1.matches(&b3), a1.conjoin(&b1) == b1.conjoin(&a1));
        // structurally equal types must compare equal, match each other and be found in a set
        let ca = ctype(&a1);
        if ctype(&a2) != ca || ctype(&a3) != ca {
            direct.push(("build-differs".into(), format!("{a_src}: parsed {ca} / {} built {}", ctype(&a2), ctype(&a3))));
        } else {
            if a1 != a2 {
                direct.push(("eq-inconsistent".into(), format!("{a_src}: two parses compare unequal")));
            }
            if a1 != a3 {
                direct.push(("eq-inconsistent".into(), format!("{a_src}: parsed vs constructed compare unequal")));
            }
            if !(a1.matches(&a2) && a2.matches(&a1) && a1.matches(&a3) && a3.matches(&a1)) {
                direct.push(("matches-irreflexive".into(), format!("{a_src}: equal types do not match each other")));
            }
            let set: HashSet<Type> = [a1.clone()].into_iter().collect();
            if !set.contains(&a2) || !set.contains(&a3) {
                direct.push(("hash-inconsistent".into(), format!("{a_src}: equal type not found in HashSet")));
            }
            ev += 6;
        }
        if ctype(&b3) == ctype(&b1) && b1 != b3 {
            direct.push(("eq-inconsistent".into(), format!("{b_src}: parsed vs constructed compare unequal")));
        }
        let ab = a1.clone() | b1.clone();
        let ba = b3.clone() | a3.clone();
        if ctype(&ab) == ctype(&ba) && ab != ba {
            direct.push(("eq-inconsistent".into(), format!("{a_src} | {b_src}: commuted unions compare unequal")));
        }
        let mut push = |k: &str, c: String| {
            canon.push(format!("{k}={c}"));
        };
        push("a==b", format!("{}", a1 == b1));
        push("a<:b", format!("{}", a1.matches(&b1)));
        push("b<:a", format!("{}", b1.matches(&a1)));
        push("a|b", ctype(&ab));
        push("b|a", ctype(&ba));
        push("a<:a|b", format!("{}", a1.matches(&ab)));
        push("a|b<:b|a", format!("{}", ab.matches(&ba)));
        push("a&b", ctype(&a1.conjoin(&b1)));
        push("b&a", ctype(&b1.conjoin(&a1)));
        let mut c = a1.clone();
        c |= b1.clone();
        push("a|=b", ctype(&c));
        for (n, t) in [("a", &a1), ("ab", &ab)] {
            push(&format!("{n}.index_result"), opt_t(t.index_result()));
            push(&format!("{n}.params"), t.params().map(|p| p.iter().map(ctype).collect::<Vec<_>>().join(",")).unwrap_or_else(|| "None".into()));
            push(&format!("{n}.return_type"), opt_t(t.return_type()));
            push(&format!("{n}.element_type"), opt_t(t.element_type()));
            push(&format!("{n}.mut_element_type"), opt_t(t.mut_element_type()));
            push(&format!("{n}.tuple_len"), format!("{:?}", t.tuple_len()));
            push(&format!("{n}.min_tuple_len"), format!("{:?}", t.min_tuple_len()));
            push(&format!("{n}.iter_element"), opt_t(t.iter_element()));
            push(&format!("{n}.tuple_element_at0"), opt_t(t.tuple_element_at(0)));
            push(&format!("{n}.tuple_element_at1"), opt_t(t.tuple_element_at(1)));
            push(&format!("{n}.field_type_a"), opt_t(t.field_type("a")));
            push(&format!("{n}.has_field_b"), format!("{}", t.has_field("b")));
            push(&format!("{n}.flatten_tuple"), t.clone().flatten_tuple().map(|p| p.iter().map(ctype).collect::<Vec<_>>().join(",")).unwrap_or_else(|| "None".into()));
            push(
                &format!("{n}.is"),
                format!(
                    "{}{}{}{}{}{}",
                    t.is_function() as u8,
                    t.is_tuple() as u8,
                    t.is_mut() as u8,
                    t.is_iterator() as u8,
                    t.is_struct() as u8,
                    t.can_be_indexed() as u8
                ),
            );
        }
        ev += 40;
        let post = (a1.matches(&b1), b1.matches(&a1), a1 == b1, b1.matches(&b3), a1.conjoin(&b1) == b1.conjoin(&a1));
        if pre != post {
            direct.push(("answer-changed-within-run".into(), format!("{a_src} vs {b_src}: (a<:b, b<:a, a==b, b<:b, a&b==b&a) was {pre:?} at the start of the run and {post:?} at its end")));
        }
        if !pre.3 {
            direct.push(("matches-irreflexive".into(), format!("{b_src}: equal types do not match each other")));
        }
        raw.push(format!("a={a1} b={b1} a|b={ab}"));
        (canon.join(";"), raw.join(";"), direct, ev)
    });
    match r {
        Ok((c, raw, d, ev)) => {
            // what a single run finds wrong is part of its record: a finding that appears under some
            // seeds or after some history only is then a difference like any other
            let mut classes: Vec<&str> = d.iter().map(|x| x.0.as_str()).collect();
            classes.sort();
            classes.dedup();
            out.canon = format!("{c};FOUND={}", classes.join(","));
            out.raw = raw;
            out.direct = d;
            out.events = ev;
        }
        Err(p) => {
            out.canon = "PANIC".into();
            out.raw = format!("PANIC {p}");
            out.events = 1;
        }
    }
    out
}

/// C15: print the type under this run's keys, re-parse the text, compare.
fn run_roundtrip(t: &Ty) -> Outcome {
    let mut out = Outcome::default();
    let r = guarded(|| {
        let mut direct: Vec<(String, String)> = Vec::new();
        let built = t.build();
        let want = ctype(&built);
        let mut printed_all = Vec::new();
        // the type as built by constructors, and as parsed from the harness's own rendering
        let from_src = Type::from_str(&t.src());
        let mut variants: Vec<(&str, Type)> = vec![("built", built.clone())];
        match from_src {
            Ok(p) => {
                if ctype(&p) != want {
                    direct.push(("parse-differs".into(), format!("`{}` parses to {} but constructors give {want}", t.src(), ctype(&p))));
                }
                variants.push(("parsed", p));
            }
            Err(_) => direct.push(("harness-src-unparsable".into(), format!("`{}`", t.src()))),
        }
        for (how, ty) in &variants {
            let txt = ty.to_string();
            printed_all.push(txt.clone());
            match Type::from_str(&txt) {
                Err(_) => direct.push(("unparsable".into(), format!("{how} type prints as `{txt}` which does not parse"))),
                Ok(back) => {
                    if ctype(&back) != want {
                        direct.push(("roundtrip-differs".into(), format!("{how} type prints as `{txt}` which parses to {}", ctype(&back))));
                    } else {
                        if back != *ty {
                            direct.push(("roundtrip-neq".into(), format!("{how} type prints as `{txt}`; re-parsed type is structurally equal but `==` says unequal")));
                        }
                        if !(back.matches(ty) && ty.matches(&back)) {
                            direct.push(("roundtrip-nomatch".into(), format!("{how} type prints as `{txt}`; re-parsed type does not match the original both ways")));
                        }
                    }
                }
            }
        }
        // a type that was printed and is then widened by one more member (types are values: the
        // widened one must print as what it now is)
        for (how, ty) in &variants {
            let widened = ty.clone() | Type::from_str("struct{zz_w: int}").expect("harness type");
            let again = widened.clone() | Type::from_str("[struct{zz_v: float}]").expect("harness type");
            // unions united with unions that share members with them (by `|` and by `|=`): the result
            // is the set of members, whatever route built it
            let self_united = ty.clone() | ty.clone();
            let overlap_united = widened.clone() | again.clone();
            let mut overlap_assigned = again.clone();
            overlap_assigned |= widened.clone();
            for (step, w) in [("once", &widened), ("twice", &again), ("by uniting it with itself", &self_united), ("and united with a union sharing members with it", &overlap_united), ("and `|=`-united with a union sharing members with it", &overlap_assigned)] {
                let txt = w.to_string();
                match Type::from_str(&txt) {
                    Err(_) => direct.push(("unparsable".into(), format!("{how} type, printed and then widened {step}, prints as `{txt}` which does not parse"))),
                    Ok(back) => {
                        if ctype(&back) != ctype(w) {
                            direct.push(("roundtrip-differs".into(), format!("{how} type, printed and then widened {step}, is {} but prints as `{txt}` which parses to {}", ctype(w), ctype(&back))));
                        } else if back != *w {
                            direct.push(("roundtrip-neq".into(), format!("{how} type, printed and then widened {step}, prints as `{txt}`; re-parsed type is structurally equal but `==` says unequal")));
                        }
                    }
                }
            }
        }
        (want, printed_all, direct)
    });
    match r {
        Ok((want, printed, direct)) => {
            let mut classes: Vec<&str> = direct.iter().map(|x| x.0.as_str()).collect();
            classes.sort();
            classes.dedup();
            out.canon = format!("{want};FOUND={}", classes.join(","));
            out.raw = printed.join(" ;; ");
            out.printed = printed.first().cloned();
            out.direct = direct;
            out.events = 6;
        }
        Err(p) => {
            out.canon = "PANIC".into();
            out.raw = format!("PANIC {p}");
            out.direct = vec![("panic".into(), p)];
            out.events = 1;
        }
    }
    out
}

/// C15, second workload: `it ? U` formats U into source text and re-parses it inside
/// `TypeFilter::exec`; must not panic and must yield an iterator of type `()->(bool, U)`.
fn run_typefilter(t: &Ty) -> Outcome {
    let mut out = Outcome::default();
    let Some(lit) = universe::literal(t, 0) else {
        out.canon = "UNINHABITED".into();
        return out;
    };
    let text = format!("x := {lit};\nit := [x, 1, \"s\", 2.5, ()]~ ? {};\nit", t.src());
    os::install(os::SimOs::new());
    let interp = Interpreter::with_stdlib();
    let r = guarded(|| Code::parse(&interp, &text).map(|c| (c.return_type(), c)));
    out.events = 1;
    match r {
        Err(p) => {
            out.canon = "PANIC@parse".into();
            out.raw = format!("PANIC@parse {p}");
            out.direct.push(("panic".into(), format!("parse of `{text}` panicked: {p}")));
        }
        Ok(Err(e)) => {
            // the harness's literal may legitimately be rejected (e.g. mut of function); not a C15 matter
            out.canon = format!("REJECT {}", cerror(&e));
            out.raw = format!("REJECT {e}");
        }
        Ok(Ok((st, code))) => {
            let want_static = format!("()->(bool,{})", ctype(&t.build()));
            let r = guarded(|| code.exec());
            out.events += 1;
            match r {
                Err(p) => {
                    out.canon = "PANIC@exec".into();
                    out.raw = format!("PANIC@exec {p}");
                    out.direct.push(("typefilter-panic".into(), format!("`{text}` panicked while re-parsing the printed type: {p}")));
                }
                Ok(Err(e)) => {
                    out.canon = cexec_error(&e);
                    out.raw = format!("{e}");
                }
                Ok(Ok(v)) => {
                    use simplesl::variable::Typed;
                    let got = ctype(&v.as_type());
                    out.canon = format!("static={} dyn={got}", ctype(&st));
                    out.raw = format!("static={st} dyn={}", v.as_type());
                    if got != want_static {
                        out.direct.push(("typefilter-type".into(), format!("`{text}` yields {got}, expected {want_static}")));
                    }
                    // pull everything: first element must come back
                    if let simplesl::variable::Variable::Function(f) = &v {
                        let pulled = guarded(|| f.clone().create_call(vec![]).map(|c| c.exec()));
                        out.events += 1;
                        match pulled {
                            Err(p) => out.direct.push(("typefilter-panic".into(), format!("pulling from `{text}` panicked: {p}"))),
                            Ok(Ok(Ok(first))) => {
                                out.canon.push_str(&format!(" first={}", cvar(&first)));
                            }
                            Ok(other) => out.canon.push_str(&format!(" first-err={}", other.is_err())),
                        }
                    }
                }
            }
        }
    }
    os::uninstall();
    out
}

pub fn run_subject(s: &Subject) -> Outcome {
    match s {
        Subject::Program { text, .. } => run_program(text, true),
        Subject::TypeOps { a, b } => run_typeops(a, b),
        Subject::RoundTrip { t } => run_roundtrip(t),
        Subject::TypeFilter { t } => run_typefilter(t),
    }
}

// ---------------------------------------------------------------------------------------------
// subject lists

fn templates(rng: &mut Rng, pool: &[Ty], n: usize) -> Vec<Subject> {
    let mut out = Vec::new();
    let mut tries = 0;
    while out.len() < n && tries < n * 20 {
        tries += 1;
        let t = pool[rng.below(pool.len())].clone();
        let u = pool[rng.below(pool.len())].clone();
        let ts = t.src();
        let kind = rng.below(10);
        let (l0, l1) = (universe::literal(&t, 0), universe::literal(&u, 1));
        let text = match kind {
            0 => format!("f := (x: {ts}) -> int {{ return 1 }}; f"),
            1 => match &l0 {
                Some(l) => format!("c := mut {ts} {l}; g := (x: mut {}) -> int {{ return 1 }}; g(c)", t.src_for_mut()),
                None => continue,
            },
            2 => match (&l0, &l1) {
                (Some(a), Some(b)) => format!("it := [{a}, {b}]~; it(); it(); d := it(); (d.0, d.1)"),
                _ => continue,
            },
            3 => match (&l0, &l1) {
                (Some(a), Some(b)) => format!("a := [{a}, {b}]; b := [{a}, {b}]; (a == b, a != b, [{b}, {a}] == a)"),
                _ => continue,
            },
            4 => match &l0 {
                Some(l) => format!("x := [{l}, 1, \"s\"][0]; if y: {ts} = x {{ 1 }} else {{ 2 }}"),
                None => continue,
            },
            5 => match (&l0, &l1) {
                (Some(a), Some(b)) => format!("([{a}, {b}, 1, \"s\"]~ ? {ts}) $]"),
                _ => continue,
            },
            6 => match &l0 {
                Some(l) => format!("x := [{l}, 1][0]; match x {{ y: {ts} => 1, => 2, }}"),
                None => continue,
            },
            7 => match (&l0, &l1) {
                (Some(a), Some(b)) => format!("s := struct{{p := {a}, q := {b}}}; t := struct{{q := {b}, p := {a}}}; s == t"),
                _ => continue,
            },
            8 => match (&l0, &l1) {
                (Some(a), Some(b)) => format!("f := (k: bool) -> {} {{ if k {{ return {a} }} return {b} }}; (f(true), f(false))", Ty::union_of(flat(&[t.clone(), u.clone()])).map(|x| x.src()).unwrap_or(ts.clone())),
                _ => continue,
            },
            _ => match &l0 {
                Some(l) => format!("c := mut {ts} {l}; d := c; (c == d, *c)"),
                None => continue,
            },
        };
        out.push(Subject::Program { name: format!("tmpl{kind}"), text });
    }
    out
}

fn flat(ts: &[Ty]) -> Vec<Ty> {
    ts.iter()
        .flat_map(|x| match x {
            Ty::Union(ms) => ms.clone(),
            o => vec![o.clone()],
        })
        .collect()
}

impl Ty {
    /// type text for the position after `mut` inside a type annotation
    pub fn src_for_mut(&self) -> String {
        if self.is_union() {
            format!("({})", self.src())
        } else {
            self.src()
        }
    }
}

pub struct Plan {
    pub subjects: Vec<Subject>,
    pub k: usize,
    pub prefix_pool: Vec<Prog>,
}

/// The subject list is a pure function of (property, tier, seed): every worker regenerates it.
pub fn plan(property: &str, tier: &str, seed: u64) -> Plan {
    let thorough = tier == "thorough";
    let mut rng = Rng::stream(seed, "workload");
    let d1 = universe::depth1();
    let d2 = universe::depth2();
    let mut pool: Vec<Ty> = d1.clone();
    pool.extend(d2.iter().cloned());
    let prefix_pool: Vec<Prog> = corpus::hash_corpus().into_iter().take(12).collect();
    let mut subjects = Vec::new();
    match property {
        "C05" => {
            for p in corpus::hash_corpus().into_iter().chain(corpus::repo_corpus()) {
                subjects.push(Subject::Program { name: p.name, text: p.text });
            }
            // the other simulators' programs, here under hash-key / boot-seed variation
            for (n, t) in crate::replsim::SESSIONS {
                if !t.contains("import") {
                    subjects.push(Subject::Program { name: format!("session:{n}"), text: t.lines().collect::<Vec<_>>().join(";\n") });
                }
            }
            for (i, t) in crate::replsim::AGAIN_PROGS.iter().chain(crate::cellsim::SHARED_PROGS.iter()).enumerate() {
                subjects.push(Subject::Program { name: format!("prog{i}"), text: t.to_string() });
            }
            subjects.push(Subject::Program { name: "cell_world".into(), text: format!("{};\n(*c0, *c1, *c3, *c4, *c5, *c6, it(), std.convert.to_string(selfc))", crate::cellmodel::WORLD.trim()) });
            for (i, a) in crate::cellmodel::ATTACKS.iter().enumerate() {
                subjects.push(Subject::Program { name: format!("attack{i}"), text: format!("{};\n{a}", crate::cellmodel::WORLD.trim()) });
            }
            subjects.extend(templates(&mut rng, &pool, if thorough { 12_000 } else { 900 }));
            // type-operation scripts: every universe type against itself and a seeded partner
            let stride = if thorough { 1 } else { 3 };
            for (i, t) in pool.iter().enumerate() {
                if i % stride != 0 && t.orders() < 6 {
                    continue;
                }
                let partner = pool[rng.below(pool.len())].clone();
                subjects.push(Subject::TypeOps { a: t.clone(), b: partner });
            }
            // unions whose per-member answers are related by subtyping (order-sensitive folds)
            let rel = universe::related_unions();
            let rstride = if thorough { 1 } else { 2 };
            for (i, t) in rel.iter().enumerate() {
                if i % rstride == 0 {
                    let partner = rel[rng.below(rel.len())].clone();
                    subjects.push(Subject::TypeOps { a: t.clone(), b: partner });
                }
            }
            // hash twins: same shape, other atoms (what a lossy-keyed memo confuses), both ways round
            let twin_stride = if thorough { 1 } else { 3 };
            for (i, t) in pool.iter().chain(rel.iter()).filter(|t| t.has_union_or_struct()).enumerate() {
                if i % twin_stride == 0 {
                    let tw = t.twin();
                    if tw != *t {
                        subjects.push(Subject::TypeOps { a: t.clone(), b: tw.clone() });
                        subjects.push(Subject::TypeOps { a: tw, b: t.clone() });
                    }
                }
            }
            if thorough {
                for _ in 0..6000 {
                    let a = universe::sample_depth3(&mut rng, &pool);
                    let b = universe::sample_depth3(&mut rng, &pool);
                    subjects.push(Subject::TypeOps { a, b });
                }
            }
        }
        "C15" => {
            for t in ATOMS_AND(&pool) {
                subjects.push(Subject::RoundTrip { t });
            }
            for t in universe::related_unions() {
                subjects.push(Subject::RoundTrip { t });
            }
            let n3 = if thorough { 50_000 } else { 1_500 };
            for _ in 0..n3 {
                subjects.push(Subject::RoundTrip { t: universe::sample_depth3(&mut rng, &pool) });
            }
            let stride = if thorough { 1 } else { 4 };
            for (i, t) in pool.iter().enumerate() {
                if i % stride == 0 || t.orders() >= 6 {
                    subjects.push(Subject::TypeFilter { t: t.clone() });
                }
            }
        }
        other => panic!("hashsim has no plan for {other}"),
    }
    let k = match (property, thorough) {
        ("C05", false) => 12,
        ("C05", true) => 48,
        ("C15", false) => 12,
        (_, _) => 32,
    };
    Plan { subjects, k, prefix_pool }
}

#[allow(non_snake_case)]
fn ATOMS_AND(pool: &[Ty]) -> Vec<Ty> {
    let mut v: Vec<Ty> = universe::ATOMS.to_vec();
    v.extend(pool.iter().cloned());
    v
}

// ---------------------------------------------------------------------------------------------
// worker

pub fn key_seed(seed: u64, subject_idx: usize, k: usize) -> u64 {
    derive_n(seed, "run-keys", (subject_idx as u64) << 16 | k as u64)
}

/// Executes one explicit scenario (subject under one key seed after a prefix) on a fresh thread.
pub fn run_scenario(subject: &Subject, key_seed: u64, prefix: &[String]) -> Outcome {
    crate::run::note_current(|| scenario_json(crate::boot::current(), subject, key_seed, prefix));
    let s = subject.clone();
    let prefix: Vec<String> = prefix.to_vec();
    match on_fresh_thread(key_seed, move || {
        for p in &prefix {
            if p == "@failed-imports" {
                failed_imports();
                continue;
            }
            match p.strip_prefix("@subject ") {
                Some(j) => {
                    if let Ok(v) = serde_json::from_str::<Value>(j) {
                        let _ = run_subject(&Subject::from_json(&v));
                    }
                }
                None => {
                    let _ = run_program(p, false);
                }
            }
        }
        run_subject(&s)
    }) {
        Ok(o) => o,
        Err(p) => Outcome { canon: "PANIC@harness".into(), raw: format!("PANIC@harness {p}"), ..Default::default() },
    }
}

/// "Unrelated work" that fails: on the current thread, imports of every module path the corpus uses
/// while those files are ill-formed (syntax error, then type error). The files are back to normal
/// when the subject runs: a file's earlier content is not an input of a later parse.
fn failed_imports() {
    for bad in ["a := := 1", "a := 1 + \"x\"", "a := [1][5]"] {
        let mut sim_os = os::SimOs::new();
        for path in ["lib", "modp", "modu"] {
            sim_os.nodes.insert(path.into(), os::Node::File(bad.as_bytes().to_vec()));
        }
        os::install(sim_os);
        let interp = Interpreter::with_stdlib();
        for path in ["lib", "modp", "modu"] {
            let _ = guarded(|| Code::parse(&interp, &format!("m := import \"{path}\"; m")).map(|c| c.exec()));
        }
        os::uninstall();
    }
}

fn scenario_json(boot_seed: u64, subject: &Subject, key_seed: u64, prefix: &[String]) -> Value {
    json!({"sim": "hashsim", "boot_seed": boot_seed, "subject": subject.to_json(), "key_seed": key_seed, "prefix": prefix})
}

/// "After unrelated work": every fourth seed of a subject first runs 1-3 other programs on the
/// same thread. A pure function of (seed, subject index, k), so any run can be re-created alone.
pub fn prefix_for(plan: &Plan, seed: u64, idx: usize, k: usize) -> Vec<String> {
    if k % 4 != 3 {
        return vec![];
    }
    // systematically: the next and the previous subject of the plan (related programs are
    // neighbours in the corpus) each run once, alone, on the same thread before the subject; the
    // remaining prefix runs draw a mixture
    let n_subjects = plan.subjects.len();
    match (k / 4) % 3 {
        0 => return vec![format!("@subject {}", plan.subjects[(idx + 1) % n_subjects].to_json())],
        1 => return vec![format!("@subject {}", plan.subjects[(idx + n_subjects - 1) % n_subjects].to_json())],
        _ => {}
    }
    let mut rng = Rng::new(derive_n(seed, "prefix", (idx as u64) << 16 | k as u64));
    let n = 1 + rng.below(3);
    (0..n)
        .map(|_| match rng.below(5) {
            // the subject itself / its neighbours first, on the same thread: a thread-local or
            // content-keyed memo answers a later, slightly different query from an earlier one
            0 => format!("@subject {}", plan.subjects[idx].to_json()),
            1 => format!("@subject {}", plan.subjects[(idx + 1) % plan.subjects.len()].to_json()),
            2 => format!("@subject {}", plan.subjects[(idx + plan.subjects.len() - 1) % plan.subjects.len()].to_json()),
            // failing work first: imports of the corpus's module paths while those files are ill-formed
            3 => "@failed-imports".to_string(),
            _ => plan.prefix_pool[rng.below(plan.prefix_pool.len())].text.clone(),
        })
        .collect()
}

/// The order in which a worker executes its runs: for every subject of its shard, seed 0 twice
/// (the O1 repeat), then seeds 1..K.
pub fn worker_order(n_subjects: usize, k: usize, shard: usize, shards: usize, upto: (usize, usize, bool)) -> Vec<(usize, usize)> {
    let mut out = Vec::new();
    for idx in (0..n_subjects).filter(|i| i % shards == shard) {
        for kk in 0..k {
            if (idx, kk) == (upto.0, upto.1) && !upto.2 {
                return out;
            }
            out.push((idx, kk));
            if kk == 0 {
                if (idx, kk) == (upto.0, upto.1) && upto.2 {
                    return out;
                }
                out.push((idx, kk));
            }
        }
    }
    out
}

static mut KEEP_BITS: [u64; 8192] = [0; 8192];

fn env_bytes(name: &std::ffi::CStr) -> Option<&'static [u8]> {
    // SAFETY: getenv returns a pointer into the process environment, which this program never modifies
    unsafe {
        let p = libc::getenv(name.as_ptr());
        if p.is_null() {
            None
        } else {
            Some(std::ffi::CStr::from_ptr(p).to_bytes())
        }
    }
}

/// VERIF_STOP_AT = "idx,k,r" (r = 1 for the O1 repeat of seed 0)
fn replay_stop_at() -> Option<(usize, usize, bool)> {
    let b = env_bytes(c"VERIF_STOP_AT")?;
    let mut nums = [0usize; 3];
    let mut i = 0;
    for &ch in b {
        if ch == b',' {
            i += 1;
            if i > 2 {
                break;
            }
        } else if ch.is_ascii_digit() {
            nums[i] = nums[i] * 10 + (ch - b'0') as usize;
        }
    }
    Some((nums[0], nums[1], nums[2] == 1))
}

/// VERIF_KEEP = "i,j,k,..." (possibly empty); returns whether the variable is set
fn replay_keep_load() -> bool {
    let Some(b) = env_bytes(c"VERIF_KEEP") else { return false };
    let mut cur: Option<usize> = None;
    let mut set = |n: usize| {
        if n < 8192 * 64 {
            // SAFETY: single-threaded at this point (called once before any run thread exists)
            unsafe { KEEP_BITS[n / 64] |= 1u64 << (n % 64) };
        }
    };
    for &ch in b {
        if ch.is_ascii_digit() {
            cur = Some(cur.unwrap_or(0) * 10 + (ch - b'0') as usize);
        } else if let Some(n) = cur.take() {
            set(n);
        }
    }
    if let Some(n) = cur {
        set(n);
    }
    true
}

fn replay_keep_has(idx: usize) -> bool {
    // SAFETY: written only by replay_keep_load before the loop
    idx < 8192 * 64 && unsafe { KEEP_BITS[idx / 64] >> (idx % 64) & 1 == 1 }
}

/// `simctl worker hashsim`: input {property, tier, seed, boot_seed, shard, shards}
pub fn worker(input: &Value) -> Value {
    let property = input["property"].as_str().unwrap();
    let tier = input["tier"].as_str().unwrap();
    let seed = input["seed"].as_u64().unwrap();
    let boot_seed = input["boot_seed"].as_u64().unwrap();
    let shard = input["shard"].as_u64().unwrap() as usize;
    let shards = input["shards"].as_u64().unwrap() as usize;
    crate::boot::boot(boot_seed);
    let plan = plan(property, tier, seed);
    let mut subjects_out = Vec::new();
    let mut violations = Vec::new();
    let mut harness_errors: Vec<Value> = Vec::new();
    let mut abandoned = 0;
    let mut runs = 0u64;
    let mut events = 0u64;
    let mut prefix_runs = 0u64;
    let want_trace = input["trace"].as_bool().unwrap_or(false);
    let mut trace: Vec<Value> = Vec::new();
    // history replay: execute only the subjects in VERIF_KEEP (plus the target) and stop at the
    // run VERIF_STOP_AT. Both come through the environment and are parsed without touching the
    // heap, so that a replay with the full history performs exactly the allocation sequence of the
    // original worker (the allocator is deterministic: detalloc.rs).
    let stop_at = replay_stop_at();
    let keep_active = replay_keep_load();
    for (idx, subject) in plan.subjects.iter().enumerate() {
        if idx % shards != shard {
            continue;
        }
        if let (true, Some(stop)) = (keep_active, &stop_at) {
            if !replay_keep_has(idx) && idx != stop.0 {
                continue;
            }
        }
        let prefixes: Vec<Vec<String>> = (0..plan.k).map(|k| prefix_for(&plan, seed, idx, k)).collect();
        let mut outcomes: Vec<(u64, Outcome)> = Vec::new();
        if abandoned >= 2 {
            harness_errors.push(json!({"what": "worker stopped after two abandoned runs", "subjects_done": subjects_out.len()}));
            break;
        }
        let mut broken = false;
        for k in 0..plan.k {
            let ks = key_seed(seed, idx, k);
            let o = run_scenario(subject, ks, &prefixes[k]);
            runs += 1;
            events += o.events;
            if o.canon == "PANIC@harness" {
                // the run's thread could not be started, died, or was abandoned by the watchdog:
                // nothing is known about the subject - never a difference between seeds
                harness_errors.push(json!({"what": format!("{:.300}", o.raw), "subject": subject.id(), "key_seed": ks}));
                if o.raw.contains(crate::run::WATCHDOG) {
                    abandoned += 1;
                }
                broken = true;
                break;
            }
            if stop_at == Some((idx, k, false)) {
                return json!({"canon": o.canon, "raw": o.raw, "stopped_at": [idx, k, false]});
            }
            if !prefixes[k].is_empty() {
                prefix_runs += 1;
            }
            if k == 0 {
                // O1: the same seed again must give the byte-identical raw record
                let again = run_scenario(subject, ks, &prefixes[k]);
                runs += 1;
                if stop_at == Some((idx, k, true)) {
                    return json!({"canon": again.canon, "raw": again.raw, "stopped_at": [idx, k, true]});
                }
                if again.canon == "PANIC@harness" {
                    harness_errors.push(json!({"what": format!("{:.300}", again.raw), "subject": subject.id(), "key_seed": ks}));
                    if again.raw.contains(crate::run::WATCHDOG) {
                        abandoned += 1;
                    }
                    broken = true;
                    break;
                }
                if again.raw != o.raw || again.canon != o.canon {
                    // the simulator is deterministic (selftest), so this is the code under test
                    // answering differently the second time in the same process: a candidate whose
                    // cause is searched in the process history by the driver
                    violations.push(json!({
                        "class": "history-dependent",
                        "detail": format!("same program, same hash keys, same process, executed twice: first {:.300}  |  second {:.300}", o.raw, again.raw),
                        "subject_id": subject.id(),
                        "runs": [scenario_json(boot_seed, subject, ks, &prefixes[k])],
                        "at": {"idx": idx, "k": [0, 0], "repeat": [false, true], "shard": shard, "shards": shards, "canons": [o.canon, again.canon]},
                    }));
                }
            }
            if want_trace {
                trace.push(json!([format!("{idx}/{k}"), format!("{:016x}", digest(&format!("{}#{}", o.raw, o.canon))), scenario_json(boot_seed, subject, ks, &prefixes[k])]));
            }
            outcomes.push((ks, o));
        }
        if broken {
            continue;
        }
        // direct violations (visible in one run)
        for (k, (ks, o)) in outcomes.iter().enumerate() {
            if let Some((class, detail)) = o.direct.first() {
                violations.push(json!({
                    "class": class, "detail": detail, "subject_id": subject.id(),
                    "runs": [scenario_json(boot_seed, subject, *ks, &prefixes[k])],
                    "at": {"idx": idx, "k": [k, k], "repeat": [false, false], "shard": shard, "shards": shards, "canons": [o.canon, o.canon]},
                }));
                break;
            }
        }
        // O2: canonical records identical across seeds
        let first = &outcomes[0];
        if let Some((k, other)) = outcomes.iter().enumerate().find(|(_, o)| o.1.canon != first.1.canon) {
            violations.push(json!({
                "class": "seed-dependent",
                "detail": format!("seed {:#x}: {:.300}  |  seed {:#x}: {:.300}", first.0, first.1.canon, other.0, other.1.canon),
                "subject_id": subject.id(),
                "runs": [scenario_json(boot_seed, subject, first.0, &prefixes[0]), scenario_json(boot_seed, subject, other.0, &prefixes[k])],
                "at": {"idx": idx, "k": [0, k], "repeat": [false, false], "shard": shard, "shards": shards, "canons": [first.1.canon, other.1.canon]},
            }));
        }
        let raws: HashSet<&str> = outcomes.iter().map(|o| o.1.raw.as_str()).collect();
        let printed: HashSet<&str> = outcomes.iter().filter_map(|o| o.1.printed.as_deref()).collect();
        let orders = match subject {
            Subject::RoundTrip { t } => t.orders(),
            _ => 0,
        };
        subjects_out.push(json!({
            "id": subject.id(),
            "canon": first.1.canon.chars().take(400).collect::<String>(),
            "canon_digest": format!("{:016x}", digest(&first.1.canon)),
            "distinct_raw": raws.len(),
            "distinct_printed": printed.len(),
            "orders": orders,
            "first_key_seed": first.0,
        }));
    }
    json!({
        "boot_seed": boot_seed, "shard": shard, "runs": runs, "events": events, "prefix_runs": prefix_runs,
        "subjects": subjects_out, "violations": violations, "harness_errors": harness_errors,
        "k": plan.k, "n_subjects_total": plan.subjects.len(), "trace": trace, "input": input.clone(),
    })
}

/// `simctl single hashsim`: input = scenario json; output {canon, raw, direct}
pub fn single(input: &Value) -> Value {
    let boot_seed = input["boot_seed"].as_u64().unwrap();
    // "cold": a process that has done nothing before this run - not even the warm-up every worker
    // starts with (lazy statics are then initialised by the run itself, under its own hash keys)
    if input["cold"].as_bool() != Some(true) {
        crate::boot::boot(boot_seed);
    } else {
        COLD_PROCESS.store(true, std::sync::atomic::Ordering::Relaxed);
    }
    let subject = Subject::from_json(&input["subject"]);
    let prefix: Vec<String> = input["prefix"].as_array().map(|a| a.iter().map(|x| x.as_str().unwrap().to_string()).collect()).unwrap_or_default();
    let o = run_scenario(&subject, input["key_seed"].as_u64().unwrap(), &prefix);
    json!({"canon": o.canon, "raw": o.raw, "direct": o.direct.iter().map(|(c, d)| json!([c, d])).collect::<Vec<_>>(),
           "trace_digest": format!("{:016x}", digest(&format!("{}#{}", o.raw, o.canon)))})
}

pub fn boot_seed_n(seed: u64, n: usize) -> u64 {
    // the lowest bit of a boot seed selects the process environment (boot::boot): odd = bare.
    // Consecutive boot seeds alternate, so every check runs both kinds of process.
    (derive_n(seed, "boot", n as u64) & !1) | (n as u64 & 1)
}

pub fn _unused(seed: u64) -> u64 {
    derive(seed, "x")
}
