//! World, operations and the sequential reference heap shared by C13 (T = 1) and C16 (T >= 2).
use crate::prng::Rng;
use serde_json::{json, Value};
use simplesl::variable::Variable;

#[derive(Clone, Debug, PartialEq)]
pub enum Val {
    Int(i64),
    Float(f64),
    Bool(bool),
    Str(String),
    Arr(Vec<Val>),
    Void,
    /// a cell, by index into the model heap
    Ref(usize),
}

#[derive(Clone, Copy, Debug, PartialEq, Eq)]
pub enum Kind {
    Int,
    Float,
    Bool,
    Str,
    ArrInt,
    IntOrFloat,
    Any,
    /// `mut mut int`: a cell holding an int cell
    CellOfInt,
}

pub struct CellSpec {
    pub name: &'static str,
    pub kind: Kind,
    /// expressions that evaluate to this very cell (alias paths); paths through `cc` are dynamic
    pub paths: &'static [&'static str],
    pub init: Val,
}

/// The world: one program executed unscoped against a fresh interpreter. Operation programs
/// are parsed against that live interpreter afterwards (names resolve to the very cells).
pub const WORLD: &str = r#"
c0 := mut 0;
c1 := mut 0.5;
c2 := mut true;
c3 := mut "s";
c4 := mut [int] [];
c5 := mut int|float 0;
c6 := mut any 0;
cl := mut [int] [0; 40];
cs := mut "0123456789012345678901234567890123456789012345678901234567890123456789";
m1 := mut 0;
m2 := mut 0;
a := [c0, c0];
t := (c1, c0, c3);
s := struct{f := c3, g := c0, h := c4};
cc := mut c0;
g := () -> mut int { return c0 };
idf := (x: mut int) -> mut int { return x };
idarr := (x: mut [int]) -> mut [int] { return x };
viaarr := (xs: [mut int]) -> mut int { return xs[0] };
mk := () -> mut int { return mut 0 };
selfc := mut any 0;
selfc = selfc;
wr := () -> int { c0 = 100; return 1 };
it := [10, 20, 30, 40, 50, 60]~;
it2 := [1, 2]~;
pipe := [1, 2, 3, 4, 5, 6]~ ? (x: int) -> bool { return x > 1 } @ (x: int) -> int { return x * 2 };
rdint := (x: mut int) -> int { return *x };
addto := (x: mut int, k: int) -> int { return x += k };
ps := mut struct{x: int, y: int} struct{x := 1, y := 2};
pt := mut (int, string) (1, "s");
pf := mut (int) -> int (q: int) -> int { return q };
pn := mut [mut int] [m2];
pu := mut [int|string] [1, "s"];
px := mut any 0;
py := mut any 0;
px = py;
py = px;
pq := mut (int, int) (0, 0);
cn := mut 0;
cu := mut [1, 2.5][0];
cv := mut [1, "s"][0];
fnlist := mut [() -> mut int] [];
for i in [1, 2]~ { fnlist += [() -> mut int { return c0 }] };
blk := () -> mut int { return { c0 } };
apply := (x: mut int, k: int, which: int) -> int {
    if which == 0 { return x += k }
    if which == 1 { return x -= k }
    if which == 2 { return x *= k }
    if which == 3 { return x /= k }
    if which == 4 { return x %= k }
    if which == 5 { return x **= k }
    if which == 6 { return x <<= k }
    if which == 7 { return x >>= k }
    if which == 8 { return x &= k }
    if which == 9 { return x |= k }
    return x ^= k
};
0
"#;

pub const CELLS: &[CellSpec] = &[
    CellSpec { name: "c0", kind: Kind::Int, paths: &["c0", "a[0]", "a[1]", "t.1", "s.g", "g()", "idf(c0)", "viaarr([c0, m1])", "viaarr(a)", "([c0] + [m1])[0]", "[c0; 2][1]", "([c0]~ $])[0]", "struct{q := c0}.q", "(c0, 1).0", "[[c0]][0][0]", "a[-1]", "(*fnlist)[1]()", "blk()", "([c0]~ @ (x: mut int) -> mut int { return x } $])[0]", "([m1, c0]~ ? (x: mut int) -> bool { return x == c0 } $])[0]", "([c0]~ \\ (x: mut int) -> bool { return true }).0[0]", "([c0, 1]~ ? mut int $])[0]"], init: Val::Int(0) },
    CellSpec { name: "c1", kind: Kind::Float, paths: &["c1", "t.0"], init: Val::Float(0.5) },
    CellSpec { name: "c2", kind: Kind::Bool, paths: &["c2"], init: Val::Bool(true) },
    CellSpec { name: "c3", kind: Kind::Str, paths: &["c3", "t.2", "s.f"], init: Val::Str(String::new()) },
    CellSpec { name: "c4", kind: Kind::ArrInt, paths: &["c4", "s.h"], init: Val::Arr(vec![]) },
    CellSpec { name: "c5", kind: Kind::IntOrFloat, paths: &["c5"], init: Val::Int(0) },
    CellSpec { name: "c6", kind: Kind::Any, paths: &["c6"], init: Val::Int(0) },
    CellSpec { name: "m1", kind: Kind::Int, paths: &["m1", "idf(m1)"], init: Val::Int(0) },
    CellSpec { name: "m2", kind: Kind::Int, paths: &["m2"], init: Val::Int(0) },
    CellSpec { name: "cc", kind: Kind::CellOfInt, paths: &["cc"], init: Val::Ref(0) },
    // long contents: implementations that treat large arrays / strings specially
    CellSpec { name: "cl", kind: Kind::ArrInt, paths: &["cl", "idarr(cl)"], init: Val::Arr(vec![]) },
    CellSpec { name: "cs", kind: Kind::Str, paths: &["cs"], init: Val::Str(String::new()) },
];
pub const CC: usize = 9;
/// further cells of the world that are not modelled: only their declared-type invariant is judged
pub const EXTRA_CELLS: &[&str] = &["ps", "pt", "pf", "pn", "pu", "px", "py", "selfc", "fnlist", "cu", "cv", "pq", "cn"];

/// Operations on the tuple cell `pq`, whose writers always store two equal components: a reader
/// that destructures or indexes ONE read of the cell sees equal components under every
/// interleaving. (text, result)
pub const PQ_OPS: &[(&str, Option<i64>)] = &[
    ("{ pq = (3, 3); 0 }", Some(0)),
    ("{ pq = (8, 8); 0 }", Some(0)),
    ("{ pq = (21, 21); 0 }", Some(0)),
    ("{ (x, y) := *pq; x - y }", Some(0)),
    ("{ t := *pq; t.0 - t.1 }", Some(0)),
    ("{ (x, y) := *pq; u := (y, x); u.0 - u.1 }", Some(0)),
];

/// Assignments to the contended, un-modelled int cell `cn` whose target and right-hand side count
/// their own evaluations in a cell local to the operation: each is evaluated exactly once, however
/// the cell's lock is contended (the count is what the operation yields). The last two hold a
/// guard of `cn` for a while.
pub const CN_OPS: &[(&str, Option<i64>)] = &[
    ("{ k := mut 0; bump := () -> int { k += 1; return 1 }; cn += bump(); *k }", Some(1)),
    ("{ k := mut 0; bump := () -> int { k += 1; return 7 }; cn = bump(); *k }", Some(1)),
    ("{ k := mut 0; tgt := () -> mut int { k += 1; return cn }; tgt() += 1; *k }", Some(1)),
    ("{ k := mut 0; tgt := () -> mut int { k += 1; return cn }; bump := () -> int { k += 10; return 2 }; tgt() *= bump(); *k }", Some(11)),
    ("{ k := mut 0; bump := () -> int { k += 1; return 3 }; cn ^= bump(); cn |= bump(); cn -= bump(); *k }", Some(3)),
    ("{ k := mut 0; bump := () -> int { k += 1; return 1 }; cn /= bump(); cn %= bump() + 6; *k }", Some(2)),
    ("{ std.convert.to_string(cn); std.convert.to_string([cn, cn]); 0 }", Some(0)),
    ("{ x := *cn + *cn; 0 }", Some(0)),
];

/// Well-typed operations on the un-modelled cells (the checker must accept them; afterwards every
/// cell must still hold a value of the type its run-time tag declares), with the result where it
/// does not depend on the history. `cu` / `cv` are declared WITHOUT annotation from union-typed
/// initialisers that constant folding narrows: their cell type is the union, not the folded one.
pub const VALID: &[(&str, Option<i64>)] = &[
    ("cu = 2.5", None),
    ("cu = 3", None),
    ("cu = 0.5", None),
    ("if d: mut int = cu { 1 } else { 0 }", Some(0)),
    ("if d: mut float = cu { 1 } else { 0 }", Some(0)),
    ("if d: mut (int|float) = cu { 1 } else { 0 }", Some(1)),
    ("{ w := (x: mut (int|float)) -> int { x = 1.5; return 7 }; w(cu) }", Some(7)),
    ("cv = \"t\"", None),
    ("cv = 4", None),
    ("if d: mut int = cv { 1 } else { 0 }", Some(0)),
    ("if d: mut (int|string) = cv { 1 } else { 0 }", Some(1)),
    ("{ w := (x: mut (int|string)) -> int { x = \"w\"; return 8 }; w(cv) }", Some(8)),
    ("{ l := mut [1, \"a\"][0]; l = \"b\"; if d: mut int = l { 1 } else { 0 } }", Some(0)),
    ("{ pick := (k: bool) -> int|float { if k { return 1 } return 2.5 }; l := mut pick(true); l = 2.5; if d: mut int = l { 1 } else { 0 } }", Some(0)),
    // a plain `=` whose two sides reach the same cell stores the cell in itself
    ("{ selfc = 5; selfc = selfc; t := *selfc; if x: mut any = t { if x == selfc { 1 } else { 0 } } else { 0 } }", Some(1)),
    ("{ selfc = 5; d := selfc; d = selfc; t := *selfc; if x: mut any = t { if x == d { 1 } else { 0 } } else { 0 } }", Some(1)),
    ("{ selfc = 5; a2 := [selfc]; a2[0] = selfc; t := *a2[0]; if x: mut any = t { if x == selfc { 1 } else { 0 } } else { 0 } }", Some(1)),
    ("{ st := (p: mut any, q: any) -> int { p = q; return 0 }; selfc = 5; st(selfc, selfc); t := *selfc; if x: mut any = t { if x == selfc { 1 } else { 0 } } else { 0 } }", Some(1)),
    // a name bound by if-set / while-set is local to the construct: an outer binding of that name
    // denotes the same cell afterwards
    ("{ a := mut 0; b := mut 100; x := a; if x: mut int = b { x += 1 }; x += 10; if x == a { *a * 1000 + *b } else { 0 - 1 } }", Some(10101)),
    ("{ a := mut 0; b := mut 3; x := a; while x: mut int = b { x -= 1; if *x < 1 { break } }; x += 7; if x == a { *a * 10 + *b } else { 0 - 1 } }", Some(70)),
    ("{ w := (x: mut int, y: mut int) -> int { if x: mut int = y { x += 1 }; x += 10; return *x }; a := mut 0; b := mut 100; w(a, b) * 1000 + *b }", Some(10101)),
    // the right-hand side of a compound assignment is always evaluated, then the content is read
    ("{ ok := mut false; r := (ok &= (ok = true)); x := if r { 2 } else { 0 }; y := if *ok { 1 } else { 0 }; x + y }", Some(3)),
    ("{ ok := mut true; r := (ok |= (ok = false)); x := if r { 2 } else { 0 }; y := if *ok { 1 } else { 0 }; x + y }", Some(0)),
    ("{ n := mut 0; ok := mut false; bump := () -> bool { n += 1; return true }; ok &= bump(); ok |= bump(); ok |= bump(); ok &= bump(); *n }", Some(4)),
    ("{ n := mut 0; z := mut 0; bump := () -> int { n += 1; return 0 }; z *= bump(); z &= bump(); z <<= bump(); *n }", Some(3)),
    // a store of a value that compares equal to the content but is distinguishable (-0.0 / 0.0)
    ("{ z := mut 0.0; z = 0.0 * (0.0 - 1.0); w := 1.0 / *z; if w < 0.0 { 1 } else { 0 } }", Some(1)),
    ("{ z := mut 0.0; z *= 0.0 - 1.0; w := 1.0 / *z; if w < 0.0 { 1 } else { 0 } }", Some(1)),
    ("{ z := mut 0.0 * (0.0 - 1.0); z += 0.0; w := 1.0 / *z; if w > 0.0 { 1 } else { 0 } }", Some(1)),
    // the right-hand side of a compound assignment is a whole expression
    ("{ p := mut 3; p **= 1 + 1; *p }", Some(9)),
    ("{ p := mut 2; p += 2 * 3; p -= 10 - 4; p <<= 1 + 1; p |= 1 | 2; p %= 3 + 4; *p }", Some(4)),
    ("{ p := mut 7; q := (p *= 2 + 1) + 1; q * 100 + *p }", Some(2221)),
    // `c op= v` stores and yields what `*c op v` yields, also at the ends of the int range
    ("{ lo := 0 - 9223372036854775807 - 1; c := mut lo; d := *c / (0 - 1); c /= 0 - 1; if *c == d { 1 } else { 0 } }", Some(1)),
    ("{ lo := 0 - 9223372036854775807 - 1; c := mut lo; d := *c % (0 - 1); c %= 0 - 1; if *c == d { 1 } else { 0 } }", Some(1)),
    ("{ hi := 9223372036854775807; c := mut hi; d := *c + 1; c += 1; if *c == d { 1 } else { 0 } }", Some(1)),
    ("{ lo := 0 - 9223372036854775807 - 1; c := mut lo; d := *c - 1; c -= 1; if *c == d { 1 } else { 0 } }", Some(1)),
    ("{ hi := 9223372036854775807; c := mut hi; d := *c * 2; c *= 2; if *c == d { 1 } else { 0 } }", Some(1)),
    ("{ lo := 0 - 9223372036854775807 - 1; c := mut lo; d := *c * (0 - 1); c *= 0 - 1; if *c == d { 1 } else { 0 } }", Some(1)),
    ("{ c := mut 1; d := *c << 63; c <<= 63; e := *c >> 63; c >>= 63; if *c == e { if d < 0 { 1 } else { 2 } } else { 0 } }", Some(1)),
    // assignment binds weaker than every other operator
    ("{ c := mut false; r := (c = false || true); x := if r { 2 } else { 0 }; y := if *c { 1 } else { 0 }; x + y }", Some(3)),
    ("{ c := mut 0; r := (c = 1 + 2 * 3); r * 100 + *c }", Some(707)),
    ("{ c := mut false; r := (c = 1 < 2 && 3 > 2); x := if r { 2 } else { 0 }; y := if *c { 1 } else { 0 }; x + y }", Some(3)),
    ("{ c := mut 1; r := (c += 2 << 1 | 1); r * 100 + *c }", Some(606)),
    ("{ c := mut 0; d := mut 0; r := (c = d = 4 + 1); r * 100 + *c * 10 + *d }", Some(555)),
    // an assignment in an element, argument, operand or bound that is NOT the one selected still happens
    ("{ c := mut 0; v := [c += 1, *c][1]; v * 10 + *c }", Some(11)),
    ("{ c := mut 0; v := [c += 1, c += 1, *c][0]; v * 10 + *c }", Some(12)),
    ("{ c := mut 0; v := (c += 1, *c).1; v * 10 + *c }", Some(11)),
    ("{ c := mut 0; s := struct{a := c += 1, b := 5}; s.b * 10 + *c }", Some(51)),
    ("{ c := mut 0; k := 1; v := [c += 1, c += 10][k]; v * 100 + *c }", Some(1111)),
    ("{ c := mut 0; f := (a: int, b: int) -> int { return b }; v := f(c += 1, *c); v * 10 + *c }", Some(11)),
    ("{ c := mut 0; f := () -> int { return [c += 1, *c][1] }; f() * 10 + *c }", Some(11)),
    ("{ c := mut 0; f := () -> int { return (c += 1, 7, c += 1).1 }; f() * 10 + *c }", Some(72)),
    ("{ c := mut 0; v := if true { c += 1; 5 } else { c += 10; 6 }; v * 10 + *c }", Some(51)),
    ("{ c := mut 0; b := (c += 1) > 0 || (c += 10) > 0; *c }", Some(1)),
    ("{ c := mut 0; b := (c += 1) < 0 && (c += 10) > 0; *c }", Some(1)),
    ("{ c := mut 0; v := [[c += 1, 2], [3, c += 10]][0][1]; v * 100 + *c }", Some(211)),
    ("{ c := mut 0; v := ([c += 1] + [c += 10])[0]; v * 100 + *c }", Some(111)),
    // every iteration of a loop body has a scope of its own: a name used before the body
    // re-declares it denotes the OUTER cell in every iteration
    ("{ c := mut 0; n := mut 0; loop { c += 1; n += 1; if *n >= 3 { break }; c := mut 100; c += 1 }; *c }", Some(3)),
    ("{ c := mut 0; n := mut 0; while true { c += 1; n += 1; if *n >= 3 { break }; c := mut 100; c += 1 }; *c }", Some(3)),
    ("{ c := mut 0; n := mut 0; while *n < 3 { c += 1; n += 1; c := mut 100; c += 1 }; *c }", Some(3)),
    ("{ c := mut 0; for e in [1, 2, 3]~ { c += e; c := mut 100; c += 1 }; *c }", Some(6)),
    ("{ c := mut 0; n := mut 3; while x: int = *n { if x < 1 { break }; c += x; n -= 1; c := mut 100; c += 1 }; *c }", Some(6)),
    ("{ c := mut 0; w := (k: int) -> int { n := mut 0; loop { c += 1; n += 1; if *n >= k { break }; c := mut 100; c += 1 }; return *c }; w(2) * 10 + w(2) }", Some(24)),
    ("ps = struct{x := 5, y := 6}", None),
    ("pt = (2, \"t\")", None),
    ("pu = [\"a\", 2]", None),
    ("pu += [3]", None),
];
/// index of the pseudo path "*cc" (dynamic alias: whatever int cell `cc` holds)
pub const PATH_VIA_CC: usize = 1000;

pub fn init_heap() -> Vec<Val> {
    let mut h: Vec<Val> = CELLS.iter().map(|c| c.init.clone()).collect();
    h[3] = Val::Str("s".into());
    h[10] = Val::Arr(vec![Val::Int(0); 40]);
    h[11] = Val::Str("0123456789012345678901234567890123456789012345678901234567890123456789".into());
    h
}

pub const INT_OPS: &[&str] = &["+", "-", "*", "/", "%", "**", "<<", ">>", "&", "|", "^"];

#[derive(Clone, Debug, PartialEq)]
pub enum OpKind {
    Set(Val),
    Compound(String, Val),
    Get,
    Show,
    /// identity comparison of two alias paths: (cell, path) of the other operand
    SameCell(usize, usize),
    /// `c0 += wr()` where wr() stores 100 into c0 and returns 1 (read-after-rhs rule)
    BumpViaRhs,
    /// pull from the shared array iterator
    Pull,
    /// variants 0-3: two evaluations of a `mut` expression give two independent cells, in four
    /// syntactic contexts (function result, array literal, loop body, closure factory): (1, 0, false);
    /// variants 4-9: ONE evaluation copied by array repetition / concatenation / tuples / structs /
    /// a function: every copy is the same cell: (1, 1, true)
    MkFresh(u8),
    /// re-establish / query the self-referential cell
    SelfShow,
    SelfSet(Val),
    SelfTie,
    /// read through a function parameter
    ReadViaParam,
    /// compound add through a function parameter
    AddViaParam(i64),
    /// compound assignment executed inside a function on parameters (run-time path: neither
    /// operand is a constant): `apply(path, k, which)`
    ApplyViaParam(String, i64),
    /// `p op= *q`: the right-hand side reads another cell (two atomic steps: read q, update p)
    TransferFrom(String, usize, usize),
    /// `*p == *q`: contents of two alias paths compared
    CompareContents(usize, usize),
    /// the two cells px / py contain each other: rendering one walks into the other
    PairShow(u8),
    PairSet(u8, Val),
    PairTie,
    /// an assignment the checker must refuse (invariance / content type); text given explicitly
    Attack(String),
    /// a well-typed operation on un-modelled cells: (text, history-independent result if any)
    Valid(String, Option<i64>),
    /// `(*p)[std.len(*p) - 1]` on an array cell: the index expression reads the indexed cell again
    /// (two reads: no atomicity claim, but it must neither block nor panic)
    IndexSelf,
}

#[derive(Clone, Debug, PartialEq)]
pub struct Op {
    pub cell: usize,
    pub path: usize,
    pub kind: OpKind,
}

pub fn lit(v: &Val) -> String {
    match v {
        Val::Int(i) => format!("{i}"),
        Val::Float(f) => format!("{f:?}"),
        Val::Bool(b) => format!("{b}"),
        Val::Str(s) => format!("{s:?}"),
        Val::Arr(xs) => format!("[{}]", xs.iter().map(lit).collect::<Vec<_>>().join(", ")),
        Val::Void => "()".into(),
        Val::Ref(i) => CELLS[*i].name.to_string(),
    }
}

pub fn path_src(cell: usize, path: usize) -> String {
    if path == PATH_VIA_CC {
        "*cc".to_string()
    } else {
        CELLS[cell].paths[path % CELLS[cell].paths.len()].to_string()
    }
}

impl Op {
    pub fn src(&self) -> String {
        let p = path_src(self.cell, self.path);
        match &self.kind {
            OpKind::Set(v) => format!("{p} = {}", lit(v)),
            OpKind::Compound(op, v) => format!("{p} {op}= {}", lit(v)),
            OpKind::Get => format!("*{}", if p.starts_with('*') { format!("({p})") } else { p }),
            OpKind::Show => format!("std.convert.to_string({p})"),
            OpKind::SameCell(c2, p2) => format!("{p} == {}", path_src(*c2, *p2)),
            OpKind::BumpViaRhs => format!("{p} += wr()"),
            OpKind::Pull if self.path == 1 => "it2()".to_string(),
            OpKind::Pull if self.path == 2 => "pipe()".to_string(),
            OpKind::Pull => "it()".to_string(),
            OpKind::MkFresh(v) => match v % 12 {
                0 => "{ x := mk(); y := mk(); x += 1; (*x, *y, x == y) }".to_string(),
                1 => "{ p := [mut 0, mut 0]; p[0] += 1; (*p[0], *p[1], p[0] == p[1]) }".to_string(),
                2 => "{ acc := mut [mut int] []; for i in [1, 2]~ { acc += [mut 0] }; q := *acc; q[0] += 1; (*q[0], *q[1], q[0] == q[1]) }".to_string(),
                3 => "{ mkc := () -> () -> mut int { c := mut 0; return () -> mut int { return c } }; g1 := mkc(); g2 := mkc(); g1() += 1; (*g1(), *g2(), g1() == g2()) }".to_string(),
                // one evaluation, several copies: all copies are the same cell -> (1, 1, true)
                4 => "{ p := [mut 0; 3]; p[0] += 1; (*p[0], *p[2], p[0] == p[1]) }".to_string(),
                5 => "{ x := mk(); p := [x; 2] + [x]; p[2] += 1; (*p[0], *x, p[0] == p[1]) }".to_string(),
                6 => "{ p := [struct{c := mut 0}; 2]; p[0].c += 1; (*p[0].c, *p[1].c, p[0].c == p[1].c) }".to_string(),
                7 => "{ p := [mk(); 2]; q := (p[0], p); q.1[1] += 1; (*q.0, *p[0], q.0 == p[1]) }".to_string(),
                8 => "{ rep := (c: mut int, n: int) -> [mut int] { return [c; n] }; x := mut 0; p := rep(x, 2); p[1] += 1; (*x, *p[0], x == p[1]) }".to_string(),
                9 => "{ p := [(mut 0, 1); 2]; p[1].0 += 1; (*p[0].0, *p[1].0, p[0].0 == p[1].0) }".to_string(),
                // two evaluations again: NAMED functions declared inside a function / a loop body
                10 => "{ mkc := () -> () -> mut int { c := mut 0; get := () -> mut int { return c }; return get }; g1 := mkc(); g2 := mkc(); g1() += 1; (*g1(), *g2(), g1() == g2()) }".to_string(),
                _ => "{ fs := mut [() -> mut int] []; for i in [1, 2]~ { c := mut 0; get := () -> mut int { return c }; fs += [get] }; q := *fs; q[0]() += 1; (*q[0](), *q[1](), q[0]() == q[1]()) }".to_string(),
            },
            OpKind::SelfShow => "std.convert.to_string(selfc)".to_string(),
            OpKind::SelfSet(v) => format!("selfc = {}", lit(v)),
            OpKind::SelfTie => "{ selfc = selfc; 0 }".to_string(),
            OpKind::ReadViaParam => format!("rdint({p})"),
            OpKind::AddViaParam(k) => format!("addto({p}, {k})"),
            OpKind::Attack(text) => text.clone(),
            OpKind::Valid(text, _) => text.clone(),
            OpKind::IndexSelf => format!("(*{p})[std.len(*{p}) - 1]"),
            OpKind::ApplyViaParam(op, k) => format!("apply({p}, {k}, {})", INT_OPS.iter().position(|o| o == op).unwrap_or(0)),
            OpKind::TransferFrom(op, c2, p2) => format!("{p} {op}= *{}", path_src(*c2, *p2)),
            OpKind::CompareContents(c2, p2) => format!("*{} == *{}", if p.starts_with('*') { format!("({p})") } else { p.clone() }, path_src(*c2, *p2)),
            OpKind::PairShow(w) => format!("std.convert.to_string({})", if w % 2 == 0 { "px" } else { "py" }),
            OpKind::PairSet(w, v) => format!("{} = {}", if w % 2 == 0 { "px" } else { "py" }, lit(v)),
            OpKind::PairTie => "{ px = py; py = px; 0 }".to_string(),
        }
    }

    pub fn to_json(&self) -> Value {
        json!({"cell": self.cell, "path": self.path, "kind": kind_json(&self.kind), "src": self.src()})
    }

    pub fn from_json(v: &Value) -> Op {
        Op { cell: v["cell"].as_u64().unwrap() as usize, path: v["path"].as_u64().unwrap() as usize, kind: kind_from_json(&v["kind"]) }
    }
}

pub fn val_json(v: &Val) -> Value {
    match v {
        Val::Int(i) => json!({"i": i}),
        Val::Float(f) => json!({"f": f}),
        Val::Bool(b) => json!({"b": b}),
        Val::Str(s) => json!({"s": s}),
        Val::Arr(xs) => json!({"a": xs.iter().map(val_json).collect::<Vec<_>>()}),
        Val::Void => json!({"v": 0}),
        Val::Ref(i) => json!({"r": i}),
    }
}

pub fn val_from_json(v: &Value) -> Val {
    let o = v.as_object().unwrap();
    let (k, x) = o.iter().next().unwrap();
    match k.as_str() {
        "i" => Val::Int(x.as_i64().unwrap()),
        "f" => Val::Float(x.as_f64().unwrap()),
        "b" => Val::Bool(x.as_bool().unwrap()),
        "s" => Val::Str(x.as_str().unwrap().to_string()),
        "a" => Val::Arr(x.as_array().unwrap().iter().map(val_from_json).collect()),
        "r" => Val::Ref(x.as_u64().unwrap() as usize),
        _ => Val::Void,
    }
}

fn kind_json(k: &OpKind) -> Value {
    match k {
        OpKind::Set(v) => json!({"set": val_json(v)}),
        OpKind::Compound(op, v) => json!({"compound": [op, val_json(v)]}),
        OpKind::Get => json!("get"),
        OpKind::Show => json!("show"),
        OpKind::SameCell(c, p) => json!({"same": [c, p]}),
        OpKind::BumpViaRhs => json!("bump_via_rhs"),
        OpKind::Pull => json!("pull"),
        OpKind::MkFresh(v) => json!({"mk_fresh": v}),
        OpKind::SelfShow => json!("self_show"),
        OpKind::SelfSet(v) => json!({"self_set": val_json(v)}),
        OpKind::SelfTie => json!("self_tie"),
        OpKind::ReadViaParam => json!("read_via_param"),
        OpKind::AddViaParam(k) => json!({"add_via_param": k}),
        OpKind::Attack(t) => json!({"attack": t}),
        OpKind::Valid(t, r) => json!({"valid": [t, r]}),
        OpKind::IndexSelf => json!("index_self"),
        OpKind::ApplyViaParam(op, k) => json!({"apply_via_param": [op, k]}),
        OpKind::TransferFrom(op, c, p) => json!({"transfer_from": [op, c, p]}),
        OpKind::CompareContents(c, p) => json!({"compare_contents": [c, p]}),
        OpKind::PairShow(w) => json!({"pair_show": w}),
        OpKind::PairSet(w, v) => json!({"pair_set": [w, val_json(v)]}),
        OpKind::PairTie => json!("pair_tie"),
    }
}

fn kind_from_json(v: &Value) -> OpKind {
    if let Some(s) = v.as_str() {
        return match s {
            "get" => OpKind::Get,
            "show" => OpKind::Show,
            "bump_via_rhs" => OpKind::BumpViaRhs,
            "pull" => OpKind::Pull,
            "mk_fresh" => OpKind::MkFresh(0),
            "self_show" => OpKind::SelfShow,
            "self_tie" => OpKind::SelfTie,
            "read_via_param" => OpKind::ReadViaParam,
            "pair_tie" => OpKind::PairTie,
            "index_self" => OpKind::IndexSelf,
            o => panic!("bad op kind {o}"),
        };
    }
    let o = v.as_object().unwrap();
    let (k, x) = o.iter().next().unwrap();
    match k.as_str() {
        "set" => OpKind::Set(val_from_json(x)),
        "compound" => OpKind::Compound(x[0].as_str().unwrap().to_string(), val_from_json(&x[1])),
        "same" => OpKind::SameCell(x[0].as_u64().unwrap() as usize, x[1].as_u64().unwrap() as usize),
        "self_set" => OpKind::SelfSet(val_from_json(x)),
        "mk_fresh" => OpKind::MkFresh(x.as_u64().unwrap_or(0) as u8),
        "add_via_param" => OpKind::AddViaParam(x.as_i64().unwrap()),
        "attack" => OpKind::Attack(x.as_str().unwrap().to_string()),
        "valid" => OpKind::Valid(x[0].as_str().unwrap().to_string(), x[1].as_i64()),
        "apply_via_param" => OpKind::ApplyViaParam(x[0].as_str().unwrap().to_string(), x[1].as_i64().unwrap()),
        "transfer_from" => OpKind::TransferFrom(x[0].as_str().unwrap().to_string(), x[1].as_u64().unwrap() as usize, x[2].as_u64().unwrap() as usize),
        "compare_contents" => OpKind::CompareContents(x[0].as_u64().unwrap() as usize, x[1].as_u64().unwrap() as usize),
        "pair_show" => OpKind::PairShow(x.as_u64().unwrap() as u8),
        "pair_set" => OpKind::PairSet(x[0].as_u64().unwrap() as u8, val_from_json(&x[1])),
        o => panic!("bad op kind {o}"),
    }
}

// ---------------------------------------------------------------------------------------------
// sequential semantics (the reference heap)

#[derive(Clone, Debug, PartialEq)]
pub enum Expect {
    Value(Val),
    /// ExecError variant name
    Error(&'static str),
    /// no prediction (e.g. rendering of union-typed or self-referential cells)
    Unchecked,
    /// the checker must reject the program
    Rejected,
}

/// Integer arithmetic of the language on the small operands the workload uses (no overflow, so
/// none of C08's wrap-around rules are involved). Err = the documented error.
pub fn int_op(op: &str, a: i64, b: i64) -> Result<i64, &'static str> {
    Ok(match op {
        "+" => a.wrapping_add(b),
        "-" => a.wrapping_sub(b),
        "*" => a.wrapping_mul(b),
        "/" => {
            if b == 0 {
                return Err("ZeroDivision");
            }
            a.wrapping_div(b)
        }
        "%" => {
            if b == 0 {
                return Err("ZeroModulo");
            }
            a.wrapping_rem(b)
        }
        "**" => {
            if b < 0 {
                return Err("NegativeExponent");
            }
            a.wrapping_pow(b as u32)
        }
        "<<" => {
            if !(0..=63).contains(&b) {
                return Err("OverflowShift");
            }
            a << b
        }
        ">>" => {
            if !(0..=63).contains(&b) {
                return Err("OverflowShift");
            }
            a >> b
        }
        "&" => a & b,
        "|" => a | b,
        "^" => a ^ b,
        o => panic!("int_op {o}"),
    })
}

pub fn compound(op: &str, cur: &Val, v: &Val) -> Result<Val, &'static str> {
    if op.is_empty() {
        // plain copy `p = *q`
        return Ok(v.clone());
    }
    match (cur, v) {
        (Val::Int(a), Val::Int(b)) => int_op(op, *a, *b).map(Val::Int),
        (Val::Float(a), Val::Float(b)) => Ok(Val::Float(match op {
            "+" => a + b,
            "-" => a - b,
            "*" => a * b,
            "/" => a / b,
            o => panic!("float op {o}"),
        })),
        (Val::Bool(a), Val::Bool(b)) => Ok(Val::Bool(match op {
            "&" => a & b,
            "|" => a | b,
            "^" => a ^ b,
            o => panic!("bool op {o}"),
        })),
        (Val::Str(a), Val::Str(b)) if op == "+" => Ok(Val::Str(format!("{a}{b}"))),
        (Val::Arr(a), Val::Arr(b)) if op == "+" => {
            let mut r = a.clone();
            r.extend(b.iter().cloned());
            Ok(Val::Arr(r))
        }
        _ => panic!("compound {op} on {cur:?} {v:?}"),
    }
}

/// The rendering of a cell is not predicted as text (the output format is not part of C13): the
/// reference is what the interpreter itself prints for a FRESH cell of the same declared type
/// holding the model's content - `std.convert.to_string(mut T <literal>)` - so only "the rendering
/// reflects the current content" is judged, whatever the format.
fn show_source(kind: Kind, v: &Val) -> Option<String> {
    let ty = match kind {
        Kind::Int => "int",
        Kind::Float => "float",
        Kind::Bool => "bool",
        Kind::Str => "string",
        Kind::ArrInt => "[int]",
        Kind::Any => "any",
        Kind::IntOrFloat | Kind::CellOfInt => return None,
    };
    if matches!(v, Val::Ref(_)) {
        return None;
    }
    Some(format!("std.convert.to_string(mut {ty} {})", lit(v)))
}

thread_local! {
    static SHOW_CACHE: std::cell::RefCell<std::collections::HashMap<String, Option<String>>> = std::cell::RefCell::new(std::collections::HashMap::new());
}

fn show_text(kind: Kind, v: &Val) -> Option<String> {
    let src = show_source(kind, v)?;
    if let Some(hit) = SHOW_CACHE.with(|c| c.borrow().get(&src).cloned()) {
        return hit;
    }
    let interp = simplesl::Interpreter::with_stdlib();
    let r = std::panic::catch_unwind(std::panic::AssertUnwindSafe(|| simplesl::Code::parse(&interp, &src).ok().and_then(|c| c.exec().ok())));
    let text = match r {
        Ok(Some(Variable::String(s))) => Some(s.to_string()),
        _ => None,
    };
    SHOW_CACHE.with(|c| c.borrow_mut().insert(src, text.clone()));
    text
}

/// Model state besides the heap.
#[derive(Clone, Debug, PartialEq)]
pub struct Model {
    pub heap: Vec<Val>,
    pub iter_pos: usize,
    /// position of the two-element iterator `it2` (pulls with path 1)
    pub iter2_pos: usize,
    pub pipe_pos: usize,
}

pub const ITER_ITEMS: [i64; 6] = [10, 20, 30, 40, 50, 60];
pub const ITER2_ITEMS: [i64; 2] = [1, 2];
/// what the shared pipeline `pipe` (a filter and a map over a 6-element iterator) delivers
pub const PIPE_ITEMS: [i64; 5] = [4, 6, 8, 10, 12];
pub const PIPE_SOURCE_LEN: usize = 6;

impl Model {
    pub fn new() -> Self {
        Model { heap: init_heap(), iter_pos: 0, iter2_pos: 0, pipe_pos: 0 }
    }

    /// the heap index an (cell, path) pair denotes right now
    pub fn resolve(&self, cell: usize, path: usize) -> usize {
        if path == PATH_VIA_CC {
            match &self.heap[CC] {
                Val::Ref(i) => *i,
                other => panic!("cc holds {other:?}"),
            }
        } else {
            cell
        }
    }

    /// Applies `op` sequentially; returns the value the language must yield.
    pub fn apply(&mut self, op: &Op) -> Expect {
        let target = self.resolve(op.cell, op.path);
        match &op.kind {
            OpKind::Set(v) => {
                self.heap[target] = v.clone();
                Expect::Value(v.clone())
            }
            OpKind::Compound(o, v) => match compound(o, &self.heap[target], v) {
                Ok(r) => {
                    self.heap[target] = r.clone();
                    Expect::Value(r)
                }
                Err(e) => Expect::Error(e),
            },
            OpKind::Get | OpKind::ReadViaParam => Expect::Value(self.heap[target].clone()),
            OpKind::Show => match show_text(CELLS[target].kind, &self.heap[target]) {
                Some(s) => Expect::Value(Val::Str(s)),
                None => Expect::Unchecked,
            },
            OpKind::SameCell(c2, p2) => {
                let other = self.resolve(*c2, *p2);
                Expect::Value(Val::Bool(other == target))
            }
            OpKind::BumpViaRhs => {
                // wr() stores 100 into c0 and yields 1; the update reads the cell after that
                self.heap[0] = Val::Int(100);
                let cur = self.heap[target].clone();
                let r = compound("+", &cur, &Val::Int(1)).unwrap();
                self.heap[target] = r.clone();
                Expect::Value(r)
            }
            OpKind::AddViaParam(k) => {
                let r = compound("+", &self.heap[target], &Val::Int(*k)).unwrap();
                self.heap[target] = r.clone();
                Expect::Value(r)
            }
            OpKind::Pull if op.path == 1 => {
                let r = if self.iter2_pos < ITER2_ITEMS.len() {
                    Val::Arr(vec![Val::Bool(true), Val::Int(ITER2_ITEMS[self.iter2_pos])])
                } else {
                    Val::Arr(vec![Val::Bool(false), Val::Int(0)])
                };
                self.iter2_pos += 1;
                Expect::Value(r)
            }
            OpKind::Pull if op.path == 2 => {
                let r = if self.pipe_pos < PIPE_ITEMS.len() {
                    Val::Arr(vec![Val::Bool(true), Val::Int(PIPE_ITEMS[self.pipe_pos])])
                } else {
                    Val::Arr(vec![Val::Bool(false), Val::Int(0)])
                };
                self.pipe_pos += 1;
                Expect::Value(r)
            }
            OpKind::Pull => {
                let r = if self.iter_pos < ITER_ITEMS.len() {
                    Val::Arr(vec![Val::Bool(true), Val::Int(ITER_ITEMS[self.iter_pos])])
                } else {
                    Val::Arr(vec![Val::Bool(false), Val::Int(0)])
                };
                self.iter_pos += 1;
                Expect::Value(r)
            }
            OpKind::MkFresh(v) if v % 12 < 4 || v % 12 >= 10 => Expect::Value(Val::Arr(vec![Val::Int(1), Val::Int(0), Val::Bool(false)])),
            OpKind::MkFresh(_) => Expect::Value(Val::Arr(vec![Val::Int(1), Val::Int(1), Val::Bool(true)])),
            OpKind::SelfShow => Expect::Unchecked,
            OpKind::SelfSet(v) => Expect::Value(v.clone()),
            OpKind::SelfTie => Expect::Value(Val::Int(0)),
            OpKind::Attack(_) => Expect::Rejected,
            OpKind::Valid(_, Some(n)) => Expect::Value(Val::Int(*n)),
            OpKind::Valid(_, None) => Expect::Unchecked,
            OpKind::IndexSelf => match &self.heap[target] {
                Val::Arr(xs) if !xs.is_empty() => Expect::Value(xs[xs.len() - 1].clone()),
                _ => Expect::Unchecked,
            },
            OpKind::ApplyViaParam(o, k) => match compound(o, &self.heap[target], &Val::Int(*k)) {
                Ok(r) => {
                    self.heap[target] = r.clone();
                    Expect::Value(r)
                }
                Err(e) => Expect::Error(e),
            },
            OpKind::TransferFrom(o, c2, p2) => {
                let src = self.resolve(*c2, *p2);
                let v = self.heap[src].clone();
                match compound(o, &self.heap[target], &v) {
                    Ok(r) => {
                        self.heap[target] = r.clone();
                        Expect::Value(r)
                    }
                    Err(e) => Expect::Error(e),
                }
            }
            OpKind::CompareContents(c2, p2) => {
                let other = self.resolve(*c2, *p2);
                Expect::Value(Val::Bool(self.heap[other] == self.heap[target]))
            }
            OpKind::PairShow(_) => Expect::Unchecked,
            OpKind::PairSet(_, v) => Expect::Value(v.clone()),
            OpKind::PairTie => Expect::Value(Val::Int(0)),
        }
    }
}

/// Structural comparison of a model value with an interpreter value (tuples and arrays are both
/// sequences here; stored element types are ignored).
pub fn val_eq(m: &Val, v: &Variable) -> bool {
    match (m, v) {
        (Val::Int(a), Variable::Int(b)) => a == b,
        (Val::Float(a), Variable::Float(b)) => a.to_bits() == b.to_bits() || a == b,
        (Val::Bool(a), Variable::Bool(b)) => a == b,
        (Val::Str(a), Variable::String(b)) => a.as_str() == b.as_ref(),
        (Val::Void, Variable::Void) => true,
        (Val::Arr(xs), Variable::Array(a)) => xs.len() == a.len() && xs.iter().zip(a.iter()).all(|(x, y)| val_eq(x, y)),
        (Val::Arr(xs), Variable::Tuple(a)) => xs.len() == a.len() && xs.iter().zip(a.iter()).all(|(x, y)| val_eq(x, y)),
        _ => false,
    }
}

// ---------------------------------------------------------------------------------------------
// workload generation

pub struct GenCfg {
    /// concurrent mode: only operations that are a single atomic step on one cell
    pub concurrent: bool,
    /// concurrent mode only: `cc` may be re-pointed while other threads go through `*cc`
    /// (then only deadlock / panic / declared types are judged for the int cells)
    pub repoint: bool,
    /// mostly `p op= *q` between the focus cells (lock-order cycles need opposing transfers)
    pub transfer_heavy: bool,
    /// per-mille chance of a failing compound assignment
    pub fail_rate: u64,
    /// restrict to these cells (swarm); empty = all
    pub cells: Vec<usize>,
    pub allow_show: bool,
    pub allow_self: bool,
    pub allow_pull: bool,
    /// only pulls from the two-element iterator `it2`
    pub pull_heavy: bool,
    /// every thread works on the contended counter `cn` (CN_OPS)
    pub cn_heavy: bool,
}

pub fn gen_op(rng: &mut Rng, cfg: &GenCfg, unique: &mut i64) -> Op {
    let mut next_unique = || {
        *unique += 1;
        *unique
    };
    loop {
        let roll = rng.below(100);
        if cfg.pull_heavy {
            // every thread hammers the two-element iterator
            return Op { cell: 0, path: if rng.chance(1, 2) { 1 } else { 2 }, kind: OpKind::Pull };
        }
        if roll < 4 && cfg.allow_pull {
            return Op { cell: 0, path: [0, 0, 1, 2, 2][rng.below(5)], kind: OpKind::Pull };
        }
        if roll < 9 && cfg.allow_self {
            return Op {
                cell: 6,
                path: 0,
                kind: match rng.below(9) {
                    0 => OpKind::SelfSet(Val::Int(next_unique())),
                    1 => OpKind::SelfTie,
                    2 | 3 => OpKind::SelfShow,
                    4 | 5 => OpKind::PairShow(rng.below(2) as u8),
                    6 => OpKind::PairSet(rng.below(2) as u8, Val::Int(next_unique())),
                    7 => OpKind::PairShow(rng.below(2) as u8),
                    _ => OpKind::PairTie,
                },
            };
        }
        if cfg.cn_heavy || (roll >= 15 && roll < 17) {
            let (text, r) = CN_OPS[rng.below(CN_OPS.len())];
            return Op { cell: 0, path: 0, kind: OpKind::Valid(text.to_string(), r) };
        }
        if roll >= 12 && roll < 15 {
            let (text, r) = PQ_OPS[rng.below(PQ_OPS.len())];
            return Op { cell: 0, path: 0, kind: OpKind::Valid(text.to_string(), r) };
        }
        if roll < 12 && !cfg.concurrent {
            if rng.chance(1, 3) {
                let (text, r) = VALID[rng.below(VALID.len())];
                return Op { cell: 0, path: 0, kind: OpKind::Valid(text.to_string(), r) };
            }
            return Op { cell: 0, path: 0, kind: OpKind::MkFresh(rng.below(12) as u8) };
        }
        let cell = if cfg.cells.is_empty() { rng.below(CELLS.len()) } else { cfg.cells[rng.below(cfg.cells.len())] };
        let spec = &CELLS[cell];
        let mut path = rng.below(spec.paths.len());
        if spec.kind == Kind::Int && rng.chance(1, 8) {
            path = PATH_VIA_CC;
        }
        let via_cc = path == PATH_VIA_CC;
        // in concurrent mode `*cc` is only a stable alias of c0 because cc is never re-pointed
        let cell = if via_cc && cfg.concurrent { 0 } else { cell };
        let k = rng.below(100);
        let kind = match spec.kind {
            Kind::Int if cfg.transfer_heavy && k < 70 => {
                let others: Vec<usize> = [0usize, 7, 8].into_iter().filter(|c| *c != cell).collect();
                let c2 = others[rng.below(others.len())];
                if k < 55 {
                    OpKind::TransferFrom(["+", "-", "&", "|", "^", "*", "", ""][rng.below(8)].into(), c2, rng.below(3))
                } else {
                    OpKind::CompareContents(c2, rng.below(3))
                }
            }
            Kind::Int => {
                if k < 18 {
                    // one stored value in five is negative (truncating division, arithmetic shifts)
                    let v = next_unique();
                    OpKind::Set(Val::Int(if rng.chance(1, 5) { -v } else { v }))
                } else if k < 60 {
                    let op = INT_OPS[rng.below(INT_OPS.len())];
                    if rng.chance(cfg.fail_rate, 1000) {
                        match op {
                            "/" | "%" => OpKind::Compound(op.into(), Val::Int(0)),
                            "<<" | ">>" => OpKind::Compound(op.into(), Val::Int(if rng.chance(1, 2) { 64 } else { -1 })),
                            "**" => OpKind::Compound(op.into(), Val::Int(-1)),
                            _ => OpKind::Compound("/".into(), Val::Int(0)),
                        }
                    } else {
                        let neg = rng.chance(1, 4);
                        let operand = match op {
                            "+" | "-" => {
                                if neg {
                                    -next_unique()
                                } else {
                                    next_unique()
                                }
                            }
                            "*" => [1i64, 2, 3, 0, -1, -2][rng.below(6)],
                            "/" | "%" => [2i64, 3, 5, 7, -2, -3, 1, -1, 4, 8, -4, 16][rng.below(12)],
                            "**" => rng.below(3) as i64,
                            "<<" | ">>" => [0i64, 1, 2, 3][rng.below(4)],
                            _ => {
                                if neg {
                                    -(1 + rng.below(255) as i64)
                                } else {
                                    rng.below(256) as i64
                                }
                            }
                        };
                        OpKind::Compound(op.into(), Val::Int(operand))
                    }
                } else if k < 80 {
                    OpKind::Get
                } else if k < 86 && cfg.allow_show {
                    OpKind::Show
                } else if k < 90 {
                    OpKind::ReadViaParam
                } else if k < 92 {
                    OpKind::AddViaParam(next_unique())
                } else if k < 95 {
                    let op = INT_OPS[rng.below(INT_OPS.len())];
                    let operand = match op {
                        "/" | "%" => [2i64, 3, -2, 0][rng.below(4)],
                        "**" => [0i64, 1, 2, -1][rng.below(4)],
                        "<<" | ">>" => [0i64, 1, 2, 64][rng.below(4)],
                        "*" => [2i64, -1, 3][rng.below(3)],
                        _ => next_unique(),
                    };
                    OpKind::ApplyViaParam(op.into(), operand)
                } else if k < 96 {
                    let c2 = [0usize, 7, 8][rng.below(3)];
                    let p2 = rng.below(CELLS[c2].paths.len());
                    if rng.chance(1, 2) {
                        OpKind::TransferFrom(["+", "-", "&", "|", "^", ""][rng.below(6)].into(), c2, p2)
                    } else {
                        OpKind::CompareContents(c2, p2)
                    }
                } else if k < 98 && !cfg.concurrent {
                    OpKind::BumpViaRhs
                } else {
                    let c2 = [0usize, 7, 8][rng.below(3)];
                    OpKind::SameCell(c2, rng.below(CELLS[c2].paths.len()))
                }
            }
            Kind::Float => match k {
                0..=29 => OpKind::Set(Val::Float(next_unique() as f64 + 0.5)),
                30..=64 => OpKind::Compound(["+", "-", "*"][rng.below(3)].into(), Val::Float([0.5, 1.0, 2.0, 0.25][rng.below(4)])),
                65..=89 => OpKind::Get,
                _ => {
                    if cfg.allow_show {
                        OpKind::Show
                    } else {
                        OpKind::Get
                    }
                }
            },
            Kind::Bool => match k {
                0..=29 => OpKind::Set(Val::Bool(rng.chance(1, 2))),
                30..=69 => OpKind::Compound(["&", "|", "^"][rng.below(3)].into(), Val::Bool(rng.chance(1, 2))),
                _ => OpKind::Get,
            },
            Kind::Str => match k {
                0..=24 => OpKind::Set(Val::Str(format!("v{}", next_unique()))),
                25..=64 => OpKind::Compound("+".into(), Val::Str(format!("+{}", next_unique()))),
                65..=89 => OpKind::Get,
                _ => {
                    if cfg.allow_show {
                        OpKind::Show
                    } else {
                        OpKind::Get
                    }
                }
            },
            Kind::ArrInt => match k {
                90..=94 => OpKind::IndexSelf,
                0..=19 => OpKind::Set(Val::Arr(vec![Val::Int(next_unique())])),
                20..=64 => OpKind::Compound("+".into(), Val::Arr(vec![Val::Int(next_unique())])),
                65..=89 => OpKind::Get,
                _ => {
                    if cfg.allow_show {
                        OpKind::Show
                    } else {
                        OpKind::Get
                    }
                }
            },
            Kind::IntOrFloat => match k {
                0..=34 => OpKind::Set(Val::Int(next_unique())),
                35..=64 => OpKind::Set(Val::Float(next_unique() as f64 + 0.25)),
                _ => OpKind::Get,
            },
            Kind::Any => match k {
                0..=24 => OpKind::Set(Val::Int(next_unique())),
                25..=44 => OpKind::Set(Val::Str(format!("a{}", next_unique()))),
                45..=59 => OpKind::Set(Val::Arr(vec![Val::Int(next_unique())])),
                60..=89 => OpKind::Get,
                _ => {
                    if cfg.allow_show {
                        OpKind::Show
                    } else {
                        OpKind::Get
                    }
                }
            },
            Kind::CellOfInt => {
                if cfg.concurrent && !cfg.repoint {
                    continue;
                }
                if cfg.concurrent {
                    // re-point only; identity queries through a moving `*cc` have no stable answer
                    return Op { cell, path: 0, kind: OpKind::Set(Val::Ref([0usize, 7, 8][rng.below(3)])) };
                }
                match k {
                    0..=59 => OpKind::Set(Val::Ref([0usize, 7, 8][rng.below(3)])),
                    _ => {
                        let c2 = [0usize, 7, 8][rng.below(3)];
                        // `*cc == <path>`: which int cell does cc hold right now?
                        return Op { cell: c2, path: PATH_VIA_CC, kind: OpKind::SameCell(c2, rng.below(CELLS[c2].paths.len())) };
                    }
                }
            }
        };
        if via_cc && matches!(kind, OpKind::SameCell(..)) {
            continue;
        }
        return Op { cell, path, kind };
    }
}

/// Assignments the checker must refuse: each would let a value outside the declared content type
/// into a cell (directly, or through a `mut` subtyping hole).
/// Every compound operator on every kind of cell with every kind of operand: whatever the checker
/// accepts is executed and must neither panic nor leave a value outside the cell's type.
pub fn matrix_attack(rng: &mut Rng) -> String {
    const CELLS_: [&str; 9] = ["c0", "c1", "c2", "c3", "c4", "c5", "c6", "m1", "cl"];
    const OPS: [&str; 11] = ["+", "-", "*", "/", "%", "**", "<<", ">>", "&", "|", "^"];
    const OPERANDS: [&str; 10] = ["2", "0", "-1", "2.5", "0.0", "true", "\"s\"", "[1]", "[2.5]", "()"];
    format!("{} {}= {}", CELLS_[rng.below(CELLS_.len())], OPS[rng.below(OPS.len())], OPERANDS[rng.below(OPERANDS.len())])
}

pub const ATTACKS: &[&str] = &[
    // the VALUE of a compound assignment (typed as the cell's content) stored into a narrower cell
    "{ cw := mut [int|float] [1.5]; c4 = (cw += [1]); 0 }",
    "{ cw := mut [int|string] [\"s\"]; c4 = (cw += []); 0 }",
    "{ cw := mut [int|float] [1.5]; w := (x: mut [int|float]) -> [int] { return x += [2] }; c4 = w(cw); 0 }",
    "{ fw := mut any 0.5; c0 = (fw = 7); 0 }",
    // a callee whose static type is a union of functions with different cell parameters
    "{ f := (c: mut int) -> int { return 1 }; g := (c: mut (int|float)) -> int { c = 2.5; return 2 }; sel := mut false; h := if *sel { f } else { g }; h(c0) }",
    "{ f := (c: mut int) -> int { return 1 }; g := (c: mut (int|float)) -> int { c = 2.5; return 2 }; fs := [f, g]; i := mut 1; fs[*i](c0) }",
    "{ f := (c: mut [int]) -> int { return 1 }; g := (c: mut [int|string]) -> int { c += [\"s\"]; return 2 }; sel := mut false; h := if *sel { f } else { g }; h(c4) }",
    "{ f := (c: mut int) -> int { return 1 }; g := (c: mut any) -> int { c = \"s\"; return 2 }; pick := (k: bool) -> ((mut int) -> int)|((mut any) -> int) { if k { return f } return g }; pick(false)(c0) }",
    "c0 = 0.5",
    "c0 = \"x\"",
    "c0 += 0.5",
    "c0 += \"x\"",
    "c1 = 1",
    "c1 += 1",
    "c2 = 1",
    "c2 += true",
    "c3 = 1",
    "c3 -= \"x\"",
    "c4 = [\"s\"]",
    "c4 += [\"s\"]",
    "c4 += [0.5]",
    "c4 = [1, \"s\"]",
    "c5 = \"x\"",
    "c5 += 0.5",
    "cc = c1",
    "cc = mut 0.5",
    "{ w := (x: mut any) -> mut any { return x }; w(c0) = \"x\" }",
    "{ w := (x: mut int|float) -> mut int|float { return x }; w(c0) = 0.5 }",
    "{ w := (x: mut (int|float)) -> int { x = 0.5; return 1 }; w(c0) }",
    "{ w := (x: mut [any]) -> int { x += [\"s\"]; return 1 }; w(c4) }",
    "{ w := (x: [mut any]) -> int { x[0] = \"s\"; return 1 }; w([c0]) }",
    "{ w := (x: (mut any, int)) -> int { x.0 = \"s\"; return 1 }; w((c0, 1)) }",
    "{ w := (x: struct{f: mut any}) -> int { x.f = 0.5; return 1 }; w(struct{f := c0}) }",
    "{ w := (x: mut int | [int]) -> int { x = 5; return 1 }; w([1]) }",
    "{ w := (x: mut int | mut float) -> int { x = 0.5; return 1 }; w(c0) }",
    "{ w := (x: mut int | mut float) -> int { x += 1; return 1 }; w(c1) }",
    "{ w := (f: (mut any) -> int) -> int { return f(c6) }; w((x: mut int) -> int { x = 1; return 1 }) }",
    "{ w := (k: ()-> mut any) -> int { k() = \"s\"; return 1 }; w(() -> mut int { return c0 }) }",
    "cc = c6",
    "c6 = c0; (*c6) = 1",
    "{ w := (x: mut [int|float]) -> int { x += [0.5]; return 1 }; w(c4) }",
    "{ w := (x: mut [any]) -> int { x = [\"s\"]; return 1 }; w(c4) }",
    "{ w := (x: mut (int|string)) -> int { x = \"s\"; return 1 }; w(c0) }",
    "{ w := (xs: [mut int|mut float]) -> int { xs[0] = 0.5; return 1 }; w([c0]) }",
    "{ w := (s: struct{f: mut int|mut string}) -> int { s.f = \"s\"; return 1 }; w(struct{f := c0}) }",
    "{ w := (x: mut float) -> int { x = 0.5; return 1 }; w(c0) }",
    "{ w := (k: () -> mut (int|float)) -> int { k() = 0.5; return 1 }; w(g) }",
    "{ w := (x: mut mut any) -> int { (*x) = \"s\"; return 1 }; w(cc) }",
    "{ w := (x: mut mut any) -> int { x = c6; return 1 }; w(cc) }",
    "{ w := (p: mut struct{x: int}) -> int { p = struct{x := 0}; return 1 }; w(ps) }",
    "{ w := (p: mut struct{x: int, y: int, z: int}) -> int { return (*p).z }; w(ps) }",
    "{ w := (p: mut struct{x: int|string, y: int}) -> int { p = struct{x := \"s\", y := 1}; return 1 }; w(ps) }",
    "{ w := (p: mut (any, string)) -> int { p = (\"s\", \"s\"); return 1 }; w(pt) }",
    "{ w := (p: mut (int, string)|mut (float, string)) -> int { p = (0.5, \"s\"); return 1 }; w(pt) }",
    "{ w := (p: mut (int) -> any) -> int { p = (q: int) -> any { return \"s\" }; return 1 }; w(pf) }",
    "{ w := (p: mut (int|string) -> int) -> int { return (*p)(\"s\") }; w(pf) }",
    "{ w := (p: mut [mut any]) -> int { p += [c6]; return 1 }; w(pn) }",
    "{ w := (p: mut [mut int|mut float]) -> int { p += [c1]; return 1 }; w(pn) }",
    "{ w := (p: mut [int]) -> int { p = [1]; return 1 }; w(pu) }",
    "{ w := (p: mut [int|string|float]) -> int { p += [0.5]; return 1 }; w(pu) }",
    "pu += [0.5]",
    "ps = struct{x := 1}",
    "ps = struct{x := 1, y := \"s\"}",
    "pt = (1, 2)",
    "pn += [c1]",
    "a[0] = 0.5",
    "t.1 = \"s\"",
    "s.g += 0.5",
    "(*cc) = 0.5",
    "c5 = [1]",
    "c2 = c2",
    "c0 = c0",
];
