//! `replsim` (DESIGN §4.7): one `Interpreter::with_stdlib()` driven by a simulated host.
//! Host operations: feed(k) = parse the next k statements as one input against the live
//! interpreter, then exec_unscoped (exactly what src/main.rs does); scoped = `exec()` a program
//! parsed against the live interpreter; again = `exec()` a self-contained program repeatedly;
//! hostcall / langcall = call a function value through `create_call` and in the language.
//! Reference: the batch route (prefix joined with ";\n", parsed once, run unscoped on a fresh
//! interpreter) for every prefix at which a feed ended.
use crate::canon::{cerror, ctype};
use crate::corpus;
use crate::prng::{derive_n, digest, Rng};
use crate::run::{guarded, on_fresh_thread};
use pest::Parser;
use serde_json::{json, Value};
use simplesl::variable::{Type, Typed, Variable};
use simplesl::{Code, Interpreter};
use simplesl_parser::{Rule, SimpleSLParser};
use simplesl_verif_seams::os;
use std::collections::BTreeSet;
use std::sync::Arc;

pub const SESSIONS: &[(&str, &str)] = &[
    ("cells_closures", "c := mut 0\ninc := () -> int { c += 1; return *c }\ninc()\ninc()\nd := c\nd += 10\n*c\nname := \"Tom\"\ngreet := () -> string { return \"Hello \" + name }\nname := \"Jerry\"\ngreet()\n(*c, *d, c == d)"),
    ("shadowing", "x := 1\n{ x := 2; x }\nx\nf := (x: int) -> int { return x * 2 }\nf(x)\nx := \"s\"\nx\ny := { z := 5; z + 1 }\ny\nf(y)"),
    ("module_iter", "m := mod { a := 1; b := (k: int) -> int { return k + a } }\nm.b(2)\nit := [1, 2, 3]~\nit()\nit()\nrest := it $]\nrest\nit()"),
    ("functions", "f := (f: int) -> int { return f }\nf(7)\ng := (n: int) -> int { if n <= 0 { return 0 } return n + g(n - 1) }\ng(4)\nh := (a: int, b: string) -> string { return b }\nh(1, \"x\")\nk := (a: int, a2: int) -> int { return a - a2 }\nk(5, 3)"),
    ("destruct", "(a, b) := (1, \"x\")\na\nt := (a, b, 2.5)\nt.2\ns := struct{p := a, q := b}\ns.q\n(b, a) := (a, b)\n(a, b)"),
    ("loops", "n := mut 0\nfor e in [1, 2, 3]~ { n += e }\n*n\nw := mut 3\nwhile *w > 0 { w -= 1 }\n*w\nr := if *n > 5 { \"big\" } else { \"small\" }\nr"),
    ("prints", "std.io.print(\"a\")\np := std.io.print\np(5)\nq := (v: int) { p(v) }\nq(6)\np := (v: any) { }\nq(7)\np(8)"),
    ("unions", "k := true\nx := if k { 1 } else { \"a\" }\narr := [x, 2]\narr\narr == [1, 2]\nif v: [int] = arr { \"ints\" } else { \"mixed\" }\nc := mut x\n*c\nu := (v: int|string) -> int|string { return v }\nu(x)\narr2 := arr + [\"z\"]\narr2\n([u(x)] == [1], (arr ? int) $], arr[0:1] == [1])"),
    ("wide_static_narrow_value", "pick := () -> int|float { return 1 }\ny := pick()\nb := [y]\nb == [1]\nt := (y, [y, y])\nt == (1, [1, 1])\nif w: [int] = b { 1 } else { 2 }\ns := struct{f := [y]}\ns.f == [1]\nrep := [y; 2]\nrep == [1, 1]\nm := match b { q: [int] => \"ints\", q: [int|float] => \"wide\", }\nm"),
    ("redefine", "f := () -> int { return 1 }\ng := () -> int { return f() }\nf := () -> int { return 2 }\ng()\nf()\ng := () -> int { return f() + 10 }\ng()"),
    ("match_ifset", "v := [1, \"a\", 2.5]\npick := (x: int|string|float) -> int { return match x { i: int => 1, s: string => 2, f: float => 3, } }\npick(v[0])\npick(v[1])\nif y: int = v[0] { y } else { 0 }\nz := if y: string = v[1] { y } else { \"none\" }\nz"),
    ("counter_factory", "mk := () -> () -> int { n := mut 0; return () -> int { n += 1; return *n } }\na := mk()\nb := mk()\na()\na()\nb()\n(a(), b())"),
    ("cell_in_struct", "c := mut [int] []\ns := struct{cell := c, tag := \"t\"}\npush := (v: int) { s.cell += [v] }\npush(1)\npush(2)\n*c\ns2 := s\ns2.cell += [3]\n*s.cell"),
    ("iter_ops", "src := [5, 1, 4, 2]~\nbig := src ? (x: int) -> bool { return x > 1 }\ndbl := big @ (x: int) -> int { return x * 2 }\ndbl()\nrest := dbl $]\nrest\nsrc()\ntotal := [1, 2, 3]~ $+\ntotal"),
    ("binding_shadows", "x := 1\nv := 7\nif x: int = v { x + 1 } else { 0 }\ny := x\ny\nw := mut 3\nwhile x: int = *w { w -= 1; if x < 2 { break } }\nx\nfor x in [10, 20]~ { x }\nx\nr := match v { x: int => x + 100, }\n(x, r)\ng := (x: int) -> int { return x * 2 }\n(g(5), x)\n{ x := 50; x }\nx"),
    ("binding_shadows_cells", "c := mut 1\nv := mut 9\nif c: mut int = v { c += 1 }\n*c\n(*c, *v)\nfor c in [v]~ { c += 10 }\n(*c, *v)\nh := (c: mut int) -> int { c += 100; return *c }\nh(v)\n(*c, *v)"),
    ("redeclare_signature", "f := (a: int) -> int { return a + 1 }\nf(1)\ng := () -> int { return f(10) }\nf := (a: string, b: int) -> string { return a }\nf(\"s\", 2)\ng()\nf := 5\nf + 1\ng()"),
    ("module_outer_names", "base := 10\nm := mod { k := base + 1; get := () -> int { return k + base } }\nm.get()\nbase := 20\nm.get()\nm2 := mod { k := base + 1; get := () -> int { return k + base } }\n(m.k, m2.k, m2.get())"),
    ("toplevel_loop_control", "acc := mut [int] []\ni := mut 0\nloop { i += 1; if *i > 6 { break }; if *i % 2 == 0 { continue }; acc += [*i] }\n*acc\nfor e in [1, 2, 3, 4]~ { if e == 3 { break }; acc += [e * 10] }\n*acc\n(*i, std.len(*acc))"),
    ("iterator_across_inputs", "src := [1, 2, 3, 4, 5, 6]~\nev := src ? (x: int) -> bool { return x % 2 == 0 }\nev()\nsrc()\nev()\nrest := ev $]\nrest\n(src(), ev())"),
    ("import_module", "m := import \"modp\"\nm.a\nm.f(2)\nn := import \"modp\"\n(m.a, n.a, n.s)\na := 100\nm.f(1)\nk := import \"modq\"\nk.inner.f(a)"),
    ("param_shapes", "c := mut 5\nbump := (x: mut int, k: int) -> int { return x += k }\nbump(c, 2)\nsum := (xs: [int], s: struct{a: int, b: string}) -> int { return std.len(xs) + s.a }\nsum([1, 2], struct{a := 1, b := \"x\"})\neither := (v: int|string|[int]) -> int { if y: int = v { return y } return 0 }\neither(\"q\")\napply := (h: (int) -> int, v: int) -> int { return h(v) }\napply((q: int) -> int { return q * 3 }, 4)\nnothing := (a: int) { }\nnothing(1)\npair := (t: (int, string), u: ()) -> string { return t.1 }\npair((1, \"z\"), ())"),
    ("cell_params", "cell := mut 10\nother := mut 1\nbump := (c: mut int, by: int) -> int { c += by; return *c }\nbump(cell, 5)\nsame := (c: mut int) -> mut int { return c }\nsame(cell) == cell\nswap := (p: mut int, q: mut int) { t := *p; p = *q; q = t }\nswap(cell, other)\n(*cell, *other)\nlog := mut [int] []\nnote := (l: mut [int], v: int) -> int { l += [v]; return std.len(*l) }\nnote(log, 3)\n*log"),
    ("known_constants_effects", "c := mut 0\nbump := () -> bool { c += 1; return true }\nnope := () -> bool { c += 10; return false }\nflag := *c > 5\nt := *c < 100\nr := bump() && flag\n*c\nr2 := bump() || t\n(*c, r, r2)\nr3 := nope() && flag\nr4 := flag && nope()\nr5 := t || nope()\n(*c, r3, r4, r5)\nk := *c\nincr := () -> int { c += 1; return *c }\nv := incr() + k\nw := k * incr()\nz := [incr(), k, incr()][1]\n(*c, v, w, z)\nq := if flag { incr() } else { k }\ny := match k { i: int => incr() + i, }\n(*c, q, y)\nzero := k - k\nm := incr() * zero\nd := (incr(), zero).1\n(*c, m, d)"),
    ("known_constants_control", "lim := 3\ni := mut 0\nwhile *i < lim { i += 1 }\n*i\non := *i == lim\nacc := mut [int] []\nfor e in [1, 2, 3, 4]~ { if on { acc += [e] } }\n*acc\noff := !on\nfor e in [1, 2]~ { if off { acc += [e * 100] } else { acc += [e * 7] } }\n*acc\nn := std.len(*acc)\nfill := [0; n]\nstd.len(fill)\nidx := n - 1\n(*acc)[idx]\n(*acc)[0:idx]"),
    ("single_statement_blocks", "x := 1\n{ x := 2 }\nx\nok := true\nif ok { x := 3 }\nx\nif ok { y := 4 } else { y := 5 }\nz := { x := 6 }\n(x, z)\nfor e in [7]~ { x := e }\nx\nw := mut 2\nwhile *w > 0 { w -= 1 }\nk := (v: int) -> int { { x := v } return x }\nk(9)\n(x, *w)"),
    ("any_params", "tagged := (tag: any, n: int) -> int { return n + 1 }\ntagged(1, 2)\ntri := (a: int, b: any, c: string) -> string { return c }\ntri(1, 2.5, \"x\")\nanyfirst := (a: any, b: [int], c: (int, string)) -> int { return std.len(b) + c.0 }\nanyfirst((), [1], (1, \"s\"))\nlast := (n: int, rest: any) -> int { return n }\nlast(1, \"x\")\nfour := (a: string, b: any, c: any, d: bool) -> bool { return d }\nfour(\"s\", 1, 2, true)"),
    ("match_value_arms", "id := (x: int) -> int { return x }\nv := id(5)\nr := match v { 5 => \"five\", n: int => \"int\", }\nr\nw := id(6)\nr2 := match w { 5, 7 => \"a\", 6 => \"six\", => \"other\", }\nr2\ns := \"k\"\nr3 := match s { \"j\", \"k\" => 1, t: string => 2, }\nr3\nu := [v, s]\nr4 := match u { [5, \"k\"] => 1, a: [int|string] => 2, }\n(r, r2, r3, r4)"),
    ("wide_cells", "wide := mut int|float 5\nnarrow := mut 5\nanyc := mut any 1\nread_wide := (c: mut (int|float)) -> int|float { return *c }\nread_wide(wide)\nread_narrow := (c: mut int) -> int { return *c + 1 }\nread_narrow(narrow)\nread_any := (c: mut any) -> any { return *c }\nread_any(anyc)\nput := (c: mut (int|float), v: float) -> float { return c = v }\nput(wide, 2.5)\n(*wide, *narrow, *anyc)"),
    ("nan_self_compare", "z := mut 0.0\nx := *z / *z\nx == x\nx != x\ny := [x, 1.0]\ny == y\nt := (x, \"s\")\nt != t\nk := 5\n(k == k, k != k, x == x, [x] == [x])"),
    ("known_index_effects", "c := mut 0\nbump := () -> int { c += 1; return *c }\ni := *c\nv := [bump(), bump()][i]\nn := *c\n(v, n)\nj := 1\nw := [bump(), bump(), bump()][j]\n(w, *c)\nt := (bump(), bump()).0\n(t, *c)\ns := struct{a := bump(), b := bump()}.a\n(s, *c)"),
    ("known_constant_loops", "g := (n: int) -> bool { return n > 3 }\nc := g(1)\nd := g(5)\nx := mut 0\nwhile c { x += 1; break }\n*x\nwhile d { x += 10; break }\n*x\nr := c || d\nr2 := d && c\n(r, r2)\nif c { x += 100 } else { x += 1000 }\n*x\ny := if d { 1 } else { 2 }\n(y, *x)"),
    ("filter_helper_names", "default := 7\niterator := 5\nf := [1, 2.0, 3]~ ? int\ndefault\nf()\n(default, iterator)\ng := [\"a\", 1]~ ? string\nrest := g $]\n(default, iterator, rest)"),
    // what an iterator's body declares stays in the iterator (collect and reduce call it like any function)
    ("iterator_body_locals", "val := 1\nacc := 100\ni := mut 0\ngen := () -> (bool, int) { val := *i * 10; i += 1; return (*i < 4, val) }\nr := gen $]\nval\n(val, r)\ni = 0\ntotal := gen $0 (acc: int, e: int) -> int { return acc + e }\n(val, acc, total)\nlast := () -> (bool, int) { acc := 5; e := 6; return (false, acc + e) }\nn := last $0 (a: int, b: int) -> int { return a + b }\n(acc, n)"),
    // a known, unrepaired finding (known_findings.json KF1): sessions named kf_* are never renamed,
    // so that the minimised statement list identifies the finding exactly
    ("kf_cell_of_wide_value", "pick := () -> int|float { return 1 }\nx := pick()\nm := mut x\nif c: mut int = m { 1 } else { 2 }"),
    // a call made by the host declares as little in its caller as a call made in the language
    ("host_call_unscoped", "n := 10\ntotal := 100\ndouble := (n: int) -> int { total := n * 2; return total }\ndouble(3)\n(n, total)\nsame := (double: int, same: int) -> int { n := double + same; return n }\nsame(1, 2)\n(n, total)"),
    // `_` and friends are ordinary identifiers
    ("underscore_names", "_ := 100\na := 1\nb := _ + a\nb\n_x := 5\n_ := _ + _x\n(_, _x, b)\nans := 1\nit := 2\nlast := 3\n7\n(ans, it, last, _)\n__ := _\n8\n(__, _)"),
    // names the host put into the interpreter (and `std` itself) can be re-bound like any other
    ("rebind_host_names", "host_k + 1\nhost_k := 5\nhost_k + 1\nhost_s := 2\n(host_k, host_s)\nn := std.len([1, 2])\nstd := 7\nstd + n\n(std, host_k)"),
    // derived iterators are values like any other: passed to functions by the language and by the host
    ("derived_iterators_as_arguments", "label := (x: int) -> string { return \"n\" + std.convert.to_string(x) }\nall := (it: () -> (bool, string)) -> [string] { return it $] }\nlabels := [1, 2]~ @ label\nall([3]~ @ label)\nbig := [5, 1, 7]~ ? (x: int) -> bool { return x > 2 }\nints := (it: () -> (bool, int)) -> int { return it $+ }\nints([4, 4]~)\nmixed := [1, \"a\", 2.5]~ ? int|string\nany_it := (it: () -> (bool, int|string)) -> int { return std.len(it $]) }\nany_it([1, \"b\"]~)\nhalves := [2, 4]~ @ (x: int) -> float { return 0.5 }\nfl := (it: () -> (bool, float)) -> float { return it $+ }\nfl([1.5]~)"),
    ("own_name_param", "f := (f: int, g: int) -> int { return f + g }\nf(1, 2)\ng := (x: int) -> int { g := x + 1; return g }\ng(1)\ng(2)"),
];

/// Self-contained programs for `again`: each creates its own mutable state.
pub const AGAIN_PROGS: &[&str] = &[
    "c := mut 0; c += 1; c += 1; *c",
    "it := [1, 2, 3]~; it(); it()",
    "mk := () -> mut int { return mut 5 }; a := mk(); a *= 2; *a",
    "acc := mut [int] []; for e in [1, 2]~ { acc += [e] }; *acc",
    "n := mut 0; f := () -> int { n += 1; return *n }; (f(), f())",
    "s := mut \"\"; s += \"a\"; s += \"b\"; std.io.print(*s); *s",
    "x := mut any 0; x = x; std.convert.to_string(x)",
    "it := [4, 5, 6]~ @ (v: int) -> int { return v + 1 }; (it(), it $])",
    "p := [1, 2, 3, 4]~ \\ (v: int) -> bool { return v % 2 == 0 }; p",
    "c := mut 1; g := () -> mut int { return c }; g() += 4; (*c, *g())",
    // a run-time error raised deep inside script functions: the next execution is not affected
    "f := (n: int) -> int { if n < 1 { return 1 / (n - n) } return f(n - 1) }; f(100)",
    "g := (n: int) -> int { if n < 1 { return [1][n + 5] } return g(n - 1) + 1 }; h := (k: int) -> int { return g(k) }; h(90)",
    // defaults of exhausted type filters are made per execution (cells!)
    "it := [1, 2.5]~ ? mut int; (con, d) := it(); d += 1; (con, *d)",
    "it := [1]~ ? (mut int, int); (c1, d1) := it(); d1.0 += 1; *d1.0",
    "m := import \"modc\"; m.next(); (m.next(), *m.n)",
    "m := import \"modi\"; m.it(); (m.it(), m.it $])",
    "f := () -> int { m := import \"modc\"; return m.next() + m.next() }; (f(), f())",
];

/// Programs for `scoped`: declarations and reads only (they must leave the interpreter untouched).
pub const SCOPED_PROGS: &[&str] = &[
    "zz_new := 5; zz_new + 1",
    "zz_f := () -> int { return 1 }; zz_f()",
    "zz_c := mut 0; zz_c += 1; *zz_c",
    "(zz_a, zz_b) := (1, 2); zz_a",
    "zz_m := mod { inner := 1 }; zz_m.inner",
    "{ zz_in := 1; zz_in }",
    "for zz_e in [1, 2]~ { zz_t := zz_e }; 0",
];

pub fn split_statements(text: &str) -> Option<Vec<String>> {
    let pairs = SimpleSLParser::parse(Rule::input, text).ok()?;
    Some(pairs.map(|p| p.as_str().trim().to_string()).filter(|s| !s.is_empty()).collect())
}

#[derive(Clone, Debug, PartialEq)]
pub enum HostOp {
    /// feed the next k statements as one REPL input
    Feed(usize),
    /// parse a SCOPED program against the live interpreter and `exec()` it
    Scoped(String),
}

#[derive(Clone, Debug)]
pub struct Scenario {
    pub boot_seed: u64,
    pub key_seed: u64,
    pub name: String,
    pub statements: Vec<String>,
    pub ops: Vec<HostOp>,
    /// self-contained program executed repeatedly (empty = none)
    pub again: String,
    /// probe functions bound at the end through both call routes
    pub probe_calls: bool,
}

impl Scenario {
    pub fn to_json(&self) -> Value {
        json!({
            "sim": "replsim", "boot_seed": self.boot_seed, "key_seed": self.key_seed, "name": self.name, "statements": self.statements,
            "ops": self.ops.iter().map(|o| match o { HostOp::Feed(k) => json!({"feed": k}), HostOp::Scoped(p) => json!({"scoped": p}) }).collect::<Vec<_>>(),
            "again": self.again, "probe_calls": self.probe_calls,
        })
    }
    pub fn from_json(v: &Value) -> Scenario {
        Scenario {
            boot_seed: v["boot_seed"].as_u64().unwrap(),
            key_seed: v["key_seed"].as_u64().unwrap(),
            name: v["name"].as_str().unwrap_or("").to_string(),
            statements: v["statements"].as_array().unwrap().iter().map(|s| s.as_str().unwrap().to_string()).collect(),
            ops: v["ops"]
                .as_array()
                .unwrap()
                .iter()
                .map(|o| match o.get("feed") {
                    Some(k) => HostOp::Feed(k.as_u64().unwrap() as usize),
                    None => HostOp::Scoped(o["scoped"].as_str().unwrap().to_string()),
                })
                .collect(),
            again: v["again"].as_str().unwrap_or("").to_string(),
            probe_calls: v["probe_calls"].as_bool().unwrap_or(false),
        }
    }
}

#[derive(Default, Clone, Debug)]
pub struct RunReport {
    pub violation: Option<(String, String)>,
    pub harness_error: Option<String>,
    pub events: u64,
    pub log: Vec<String>,
    pub prefixes_compared: u64,
    pub prefixes_inconclusive: u64,
    pub scoped_checked: u64,
    pub again_checked: u64,
    pub hostcalls: u64,
    pub hostcalls_rejected_both: u64,
    pub history_digest: u64,
    pub variables_compared: u64,
}

/// Content-only canonical form: stored element types and declared cell types are left out (the
/// incremental route legitimately sees actual values where the batch route sees declared types);
/// functions are rendered by their type.
pub fn ccontent(v: &Variable) -> String {
    fn go(v: &Variable, seen: &mut Vec<*const ()>) -> String {
        match v {
            Variable::Bool(b) => format!("{b}"),
            Variable::Int(i) => format!("{i}"),
            Variable::Float(f) => format!("{f:?}f"),
            Variable::String(s) => format!("{:?}", s.as_ref()),
            Variable::Void => "()".into(),
            Variable::Function(f) => format!("fn<{}>", ctype(&f.as_type())),
            Variable::Array(a) => format!("[{}]", a.iter().map(|e| go(e, seen)).collect::<Vec<_>>().join(",")),
            Variable::Tuple(t) => format!("({})", t.iter().map(|e| go(e, seen)).collect::<Vec<_>>().join(",")),
            Variable::Struct(m) => {
                let mut fs: Vec<String> = m.iter().map(|(k, v)| format!("{k}={}", go(v, seen))).collect();
                fs.sort();
                format!("struct{{{}}}", fs.join(","))
            }
            Variable::Mut(m) => {
                let p = Arc::as_ptr(m) as *const ();
                if seen.contains(&p) {
                    return "<cycle>".into();
                }
                seen.push(p);
                let c = m.variable.read().map(|g| g.clone()).unwrap_or_else(|p| p.into_inner().clone());
                let s = format!("mut({})", go(&c, seen));
                seen.pop();
                s
            }
        }
    }
    go(v, &mut Vec::new())
}

fn identifiers(statements: &[String]) -> Vec<String> {
    let mut out = BTreeSet::new();
    for s in statements {
        let b = s.as_bytes();
        let mut i = 0;
        while i < b.len() {
            if b[i].is_ascii_alphabetic() || b[i] == b'_' {
                let st = i;
                while i < b.len() && (b[i].is_ascii_alphanumeric() || b[i] == b'_') {
                    i += 1;
                }
                out.insert(s[st..i].to_string());
            } else {
                i += 1;
            }
        }
    }
    out.into_iter().collect()
}

/// A sample argument of type `t`: the value for the host route and the literal text for the
/// language route. Function-typed parameters get a lambda of exactly that type.
fn sample_arg(t: &Type, variant: usize) -> Option<(Variable, String)> {
    if let Type::Function(ft) = t {
        let params: Vec<String> = ft.params.iter().enumerate().map(|(i, p)| format!("q{i}: {}", ctype(p))).collect();
        let body = if matches!(ft.return_type, Type::Void) {
            String::new()
        } else {
            // variant 1 makes `bool` false: a function of iterator type is then an exhausted
            // iterator (an always-true one would run every consumer into the fuel limit)
            format!("return {}", sample_arg(&ft.return_type, 1)?.1)
        };
        let text = format!("({}) -> {} {{ {} }}", params.join(", "), ctype(&ft.return_type), body);
        let scratch = Interpreter::with_stdlib();
        let v = Code::parse(&scratch, &text).ok()?.exec().ok()?;
        return Some((v, text));
    }
    if let Type::Tuple(ts) = t {
        let parts: Vec<(Variable, String)> = ts.iter().map(|x| sample_arg(x, variant)).collect::<Option<_>>()?;
        let v = Variable::Tuple(parts.iter().map(|p| p.0.clone()).collect());
        return Some((v, format!("({})", parts.iter().map(|p| p.1.clone()).collect::<Vec<_>>().join(", "))));
    }
    if let Some(v) = sample_args(t, variant) {
        if let Some(l) = lit_of(&v) {
            return Some((v, l));
        }
    }
    // everything else (cells, structs, arrays of those, unions of those): a literal expression of
    // that type, evaluated once for the host route
    let text = literal_of_type(t, variant)?;
    let scratch = Interpreter::with_stdlib();
    let v = Code::parse(&scratch, &text).ok()?.exec().ok()?;
    Some((v, text))
}

fn literal_of_type(t: &Type, variant: usize) -> Option<String> {
    Some(match t {
        Type::Mut(e) => format!("mut {} {}", ctype(e), literal_of_type(e, variant)?),
        Type::Struct(st) => {
            let mut fs: Vec<String> = st.0.iter().map(|(k, v)| literal_of_type(v, variant).map(|l| format!("{k} := {l}"))).collect::<Option<_>>()?;
            fs.sort();
            format!("struct{{{}}}", fs.join(", "))
        }
        Type::Array(e) => match literal_of_type(e, variant) {
            Some(l) if variant % 3 != 2 => format!("[{l}]"),
            _ => "[]".to_string(),
        },
        Type::Tuple(ts) => format!("({})", ts.iter().map(|x| literal_of_type(x, variant)).collect::<Option<Vec<_>>>()?.join(", ")),
        Type::Multi(m) => {
            let mut ms: Vec<&Type> = m.iter().collect();
            ms.sort_by_key(|t| ctype(t));
            return literal_of_type(ms[variant % ms.len()], variant);
        }
        Type::Function(_) => sample_arg(t, variant)?.1,
        Type::Never => return None,
        other => lit_of(&sample_args(other, variant)?)?,
    })
}

/// Names a top-level statement defines (`a := ..`, `(a, b) := ..`); empty for anything else.
fn defined_names(st: &str) -> Vec<String> {
    let Some((lhs, _)) = st.split_once(":=") else { return vec![] };
    let lhs = lhs.trim();
    let inner = lhs.strip_prefix('(').and_then(|l| l.strip_suffix(')')).unwrap_or(lhs);
    let names: Vec<String> = inner.split(',').map(|n| n.trim().to_string()).collect();
    if names.iter().all(|n| !n.is_empty() && n.chars().all(|c| c.is_ascii_alphanumeric() || c == '_') && !n.chars().next().unwrap().is_ascii_digit()) {
        names
    } else {
        vec![]
    }
}

fn idents_of(text: &str) -> Vec<String> {
    let mut out = Vec::new();
    let mut cur = String::new();
    let mut in_str = false;
    for ch in text.chars() {
        if ch == '"' {
            in_str = !in_str;
        }
        if !in_str && (ch.is_ascii_alphanumeric() || ch == '_') {
            cur.push(ch);
        } else if !cur.is_empty() {
            if !cur.chars().next().unwrap().is_ascii_digit() {
                out.push(std::mem::take(&mut cur));
            } else {
                cur.clear();
            }
        }
    }
    if !cur.is_empty() && !cur.chars().next().unwrap().is_ascii_digit() {
        out.push(cur);
    }
    out
}

/// For a top-level name whose last definition is the plain statement `name := EXPR` and none of
/// whose identifiers was re-defined afterwards: EXPR (its static type still describes the value).
fn defining_expression(statements: &[String], name: &str) -> Option<String> {
    let (at, expr) = statements.iter().enumerate().rev().find_map(|(i, st)| {
        let names = defined_names(st);
        if names.iter().any(|n| n == name) {
            Some((i, if names.len() == 1 { st.split_once(":=").map(|(_, e)| e.trim().to_string()) } else { None }))
        } else {
            None
        }
    })?;
    let expr = expr?;
    let ids = idents_of(&expr);
    for st in &statements[at + 1..] {
        if defined_names(st).iter().any(|n| ids.contains(n)) {
            return None;
        }
    }
    // the expression must not mention the name itself (`x := x + 1`)
    if ids.iter().any(|i| i == name) {
        return None;
    }
    Some(expr)
}

fn sample_args(t: &Type, variant: usize) -> Option<Variable> {
    Some(match t {
        Type::Int => Variable::Int([7, 0, -3][variant % 3]),
        Type::Float => Variable::Float([1.5, 0.0][variant % 2]),
        Type::Bool => Variable::Bool(variant % 2 == 0),
        Type::String => Variable::from(["x", ""][variant % 2]),
        Type::Void => Variable::Void,
        Type::Any => Variable::Int(1),
        Type::Multi(m) => {
            let mut ms: Vec<&Type> = m.iter().collect();
            ms.sort_by_key(|t| ctype(t));
            return sample_args(ms[variant % ms.len()], variant);
        }
        Type::Array(e) => Variable::from(vec![sample_args(e, variant)?]),
        _ => return None,
    })
}

fn lit_of_tuple(elems: &[Variable]) -> Option<String> {
    Some(format!("({})", elems.iter().map(lit_of).collect::<Option<Vec<_>>>()?.join(", ")))
}

fn lit_of(v: &Variable) -> Option<String> {
    Some(match v {
        Variable::Int(i) => {
            if *i < 0 {
                format!("({i})")
            } else {
                format!("{i}")
            }
        }
        Variable::Float(f) => format!("{f:?}"),
        Variable::Bool(b) => format!("{b}"),
        Variable::String(s) => format!("{:?}", s.as_ref()),
        Variable::Void => "()".into(),
        Variable::Array(a) => format!("[{}]", a.iter().map(lit_of).collect::<Option<Vec<_>>>()?.join(", ")),
        _ => return None,
    })
}

fn call_fn(f: &Arc<simplesl::function::Function>, args: &[Variable]) -> String {
    match guarded(|| f.clone().create_call(args.to_vec()).map(|c| c.exec())) {
        Err(p) => format!("PANIC {p}"),
        Ok(Err(e)) => format!("rejected {}", cerror(&e)),
        Ok(Ok(Err(e))) => format!("ExecError::{e:?}"),
        Ok(Ok(Ok(v))) => ccontent(&v),
    }
}

fn exec_res(r: Result<Result<Variable, simplesl::ExecError>, String>) -> Result<String, String> {
    match r {
        Err(p) => Err(format!("PANIC {p}")),
        Ok(Err(e)) => Ok(format!("ExecError::{e:?}")),
        Ok(Ok(v)) => Ok(ccontent(&v)),
    }
}

/// Batch route for a prefix: fresh interpreter, one parse, exec_unscoped.
/// The interpreter both routes start from: the standard library plus two names inserted by the
/// host through the public `Interpreter::insert`, as an embedding application would.
fn host_interp() -> Interpreter<'static> {
    let mut i = Interpreter::with_stdlib();
    i.insert("host_k".into(), Variable::Int(10));
    i.insert("host_s".into(), Variable::from("h"));
    i
}

/// Err = the route did not complete (rejected / failed / panicked).
fn batch(prefix: &[String]) -> Result<(String, Interpreter<'static>, Vec<String>), String> {
    let before = os::with(|o| o.stdout.len()).unwrap_or(0);
    let mut interp = host_interp();
    let text = prefix.join(";\n");
    let code = match guarded(|| Code::parse(&interp, &text)) {
        Err(p) => return Err(format!("batch parse PANIC {p}")),
        Ok(Err(e)) => return Err(format!("batch rejected: {}", cerror(&e))),
        Ok(Ok(c)) => c,
    };
    let r = match guarded(|| code.exec_unscoped(&mut interp)) {
        Err(p) => return Err(format!("batch exec PANIC {p}")),
        Ok(Err(e)) => return Err(format!("batch failed: {e:?}")),
        Ok(Ok(v)) => ccontent(&v),
    };
    let out: Vec<String> = os::with(|o| o.stdout[before..].iter().map(|(_, l)| l.clone()).collect()).unwrap_or_default();
    Ok((r, interp, out))
}

fn snapshot(interp: &Interpreter, names: &[String]) -> Vec<(String, String)> {
    names
        .iter()
        .filter_map(|n| {
            interp.get_variable(n).map(|v| {
                let id = match v {
                    Variable::Mut(m) => format!("cell@{:p}", Arc::as_ptr(m)),
                    Variable::Function(f) => format!("fn@{:p}", Arc::as_ptr(f)),
                    other => ccontent(other),
                };
                (n.clone(), id)
            })
        })
        .collect()
}

pub fn run_scenario(sc: &Scenario) -> RunReport {
    crate::run::note_current(|| sc.to_json());
    let sc = sc.clone();
    let r = on_fresh_thread(sc.key_seed, move || {
        let mut rep = RunReport::default();
        let mut sim_os = os::SimOs::new();
        sim_os.nodes.insert("modp".into(), os::Node::File(b"a := 1; f := (x: int) -> int { return x + a }; s := \"t\"".to_vec()));
        sim_os.nodes.insert("modq".into(), os::Node::File(b"inner := import \"modp\"; b := 2".to_vec()));
        sim_os.nodes.insert("modc".into(), os::Node::File(b"n := mut 0; next := () -> int { n += 1; return *n }".to_vec()));
        sim_os.nodes.insert("modi".into(), os::Node::File(b"it := [10, 20, 30]~".to_vec()));
        os::install(sim_os);
        let mut names = identifiers(&sc.statements);
        names.extend(["zz_new", "zz_f", "zz_c", "zz_a", "zz_b", "zz_m", "zz_in", "zz_e", "zz_t", "inner"].iter().map(|s| s.to_string()));
        names.sort();
        names.dedup();
        let mut hist = String::new();

        // ---- again: exec is repeatable with fresh mutable state
        if !sc.again.is_empty() {
            let fresh = Interpreter::with_stdlib();
            if let Ok(Ok(code)) = guarded(|| Code::parse(&fresh, &sc.again)) {
                let out0 = os::with(|o| o.stdout.len()).unwrap();
                let first = exec_res(guarded(|| code.exec()));
                let out1 = os::with(|o| o.stdout.len()).unwrap();
                let mut sink = Interpreter::with_stdlib();
                let mid = exec_res(guarded(|| code.exec_unscoped(&mut sink)));
                let out2 = os::with(|o| o.stdout.len()).unwrap();
                let second = exec_res(guarded(|| code.exec()));
                let out3 = os::with(|o| o.stdout.len()).unwrap();
                rep.events += 3;
                rep.again_checked += 1;
                rep.log.push(format!("again `{}` -> {first:?} / {mid:?} / {second:?}", sc.again));
                let lines = |a: usize, b: usize| os::with(|o| o.stdout[a..b].iter().map(|(_, l)| l.clone()).collect::<Vec<_>>()).unwrap();
                if let (Ok(a), Ok(m), Ok(b)) = (&first, &mid, &second) {
                    if a != b || a != m || lines(out0, out1) != lines(out2, out3) || lines(out0, out1) != lines(out1, out2) {
                        rep.violation = Some(("exec-not-repeatable".into(), format!("`{}`: first exec {a}, exec_unscoped {m}, second exec {b}", sc.again)));
                        return rep;
                    }
                }
                hist.push_str(&format!("again:{first:?};"));
            }
        }

        // ---- the session: incremental route vs batch route
        let mut interp = host_interp();
        let mut fed = 0usize;
        let mut repl_out: Vec<String> = Vec::new();
        let mut last_repl: Option<String> = None;
        let mut alive = true;
        // the batch route's interpreter after the last complete prefix: an equal-state replica
        let mut replica: Option<(usize, Interpreter<'static>)> = None;
        for op in &sc.ops {
            if !alive {
                break;
            }
            match op {
                HostOp::Scoped(prog) => {
                    let before = snapshot(&interp, &names);
                    let parsed = guarded(|| Code::parse(&interp, prog));
                    rep.events += 1;
                    if let Ok(Ok(code)) = parsed {
                        let out_before = os::with(|o| o.stdout.len()).unwrap();
                        let r = exec_res(guarded(|| code.exec()));
                        os::with(|o| o.stdout.truncate(out_before));
                        let after = snapshot(&interp, &names);
                        rep.scoped_checked += 1;
                        rep.log.push(format!("scoped `{prog}` -> {r:?}"));
                        if before != after {
                            let diff: Vec<String> = after.iter().filter(|x| !before.contains(x)).map(|x| format!("{}={}", x.0, x.1)).collect();
                            let gone: Vec<String> = before.iter().filter(|x| !after.contains(x)).map(|x| format!("{}={}", x.0, x.1)).collect();
                            rep.violation = Some((
                                "exec-modified-interpreter".into(),
                                format!("`exec()` of `{prog}` changed the interpreter it was parsed against: new/changed {diff:?}, removed/changed {gone:?}"),
                            ));
                            return rep;
                        }
                        hist.push_str(&format!("scoped:{r:?};"));
                    }
                }
                HostOp::Feed(k) => {
                    let end = (fed + k).min(sc.statements.len());
                    if end == fed {
                        continue;
                    }
                    let input = sc.statements[fed..end].join(";\n");
                    rep.events += 1;
                    let out_before = os::with(|o| o.stdout.len()).unwrap();
                    let parsed = guarded(|| Code::parse(&interp, &input));
                    let code = match parsed {
                        Err(p) => {
                            rep.log.push(format!("feed `{input}` -> parse PANIC {p} (inconclusive)"));
                            rep.prefixes_inconclusive += 1;
                            alive = false;
                            continue;
                        }
                        Ok(Err(e)) => {
                            rep.log.push(format!("feed `{input}` -> rejected {} (inconclusive)", cerror(&e)));
                            rep.prefixes_inconclusive += 1;
                            alive = false;
                            continue;
                        }
                        Ok(Ok(c)) => c,
                    };
                    let r = guarded(|| code.exec_unscoped(&mut interp));
                    let new_out: Vec<String> = os::with(|o| o.stdout[out_before..].iter().map(|(_, l)| l.clone()).collect()).unwrap();
                    repl_out.extend(new_out);
                    let val = match r {
                        Err(p) => {
                            rep.log.push(format!("feed `{input}` -> exec PANIC {p} (inconclusive)"));
                            rep.prefixes_inconclusive += 1;
                            alive = false;
                            continue;
                        }
                        Ok(Err(e)) => {
                            rep.log.push(format!("feed `{input}` -> {e:?} (inconclusive)"));
                            rep.prefixes_inconclusive += 1;
                            alive = false;
                            continue;
                        }
                        Ok(Ok(v)) => ccontent(&v),
                    };
                    fed = end;
                    rep.log.push(format!("feed `{}` -> {val}", input.replace('\n', " ")));
                    hist.push_str(&format!("feed{k}:{val};"));
                    last_repl = Some(val.clone());
                    // batch route for this prefix
                    let out_mark = os::with(|o| o.stdout.len()).unwrap();
                    let b = batch(&sc.statements[..fed]);
                    os::with(|o| o.stdout.truncate(out_mark));
                    match b {
                        Err(why) => {
                            rep.log.push(format!("  prefix {fed}: {why} (inconclusive)"));
                            rep.prefixes_inconclusive += 1;
                        }
                        Ok((bval, binterp, bout)) => {
                            rep.prefixes_compared += 1;
                            if bval != val {
                                rep.violation = Some((
                                    "repl-batch-result".into(),
                                    format!("prefix of {fed} statements: fed incrementally the last result is {val}, as one program it is {bval}"),
                                ));
                                return rep;
                            }
                            if bout != repl_out {
                                rep.violation = Some((
                                    "repl-batch-stdout".into(),
                                    format!("prefix of {fed} statements: incremental route printed {repl_out:?}, batch route printed {bout:?}"),
                                ));
                                return rep;
                            }
                            for n in &names {
                                if n == "std" {
                                    continue;
                                }
                                let a = interp.get_variable(n).map(ccontent);
                                let b = binterp.get_variable(n).map(ccontent);
                                rep.variables_compared += 1;
                                if a != b {
                                    rep.violation = Some((
                                        "repl-batch-variable".into(),
                                        format!("prefix of {fed} statements: top-level `{n}` is {a:?} after the incremental route and {b:?} after the batch route"),
                                    ));
                                    return rep;
                                }
                            }
                            let at_end = fed == sc.statements.len();
                            if at_end && sc.probe_calls {
                                // functions by behaviour: same calls on both routes, in the same order
                                for n in &names {
                                    let (Some(Variable::Function(fa)), Some(Variable::Function(fb))) = (interp.get_variable(n), binterp.get_variable(n)) else { continue };
                                    let Type::Function(ft) = fa.as_type() else { continue };
                                    let Some(args) = ft.params.iter().map(|p| sample_args(p, 0)).collect::<Option<Vec<_>>>() else { continue };
                                    let ra = call_fn(fa, &args);
                                    let rb = call_fn(fb, &args);
                                    rep.events += 2;
                                    if ra != rb {
                                        rep.violation = Some((
                                            "repl-batch-function".into(),
                                            format!("function `{n}` bound by the incremental route returns {ra:?}, the one bound by the batch route returns {rb:?} for the same arguments"),
                                        ));
                                        return rep;
                                    }
                                }
                            }
                            replica = Some((fed, binterp));
                        }
                    }
                }
            }
        }
        let _ = last_repl;

        // ---- host calls vs in-language calls on the functions the session bound
        // (language call on the incremental interpreter, host call on the equal-state replica, so that
        // stateful functions see the same history on both sides)
        // Only when the session ran to its end on both routes: after an inconclusive stop the
        // incremental interpreter may hold bindings of a partly executed input.
        if let (true, Some((at, binterp))) = (sc.probe_calls && alive, replica.as_mut().filter(|r| r.0 == fed)) {
            let _ = at;
            let fnames: Vec<String> = names.iter().filter(|n| matches!(interp.get_variable(n), Some(Variable::Function(_)))).cloned().collect();
            for n in fnames {
                let Some(Variable::Function(f)) = binterp.get_variable(&n).cloned() else { continue };
                let Type::Function(ft) = f.as_type() else { continue };
                // a `mut T` parameter receives a top-level cell of the session when there is one of
                // exactly that type: by name in the language, the replica's cell through the host API
                let cell_for = |t: &Type| -> Option<(Variable, String)> {
                    let Type::Mut(_) = t else { return None };
                    names.iter().find_map(|cn| match (interp.get_variable(cn), binterp.get_variable(cn)) {
                        (Some(a @ Variable::Mut(_)), Some(b @ Variable::Mut(_))) if ctype(&a.as_type()) == ctype(t) && ctype(&b.as_type()) == ctype(t) => Some((b.clone(), cn.clone())),
                        _ => None,
                    })
                };
                let Some(good) = ft.params.iter().enumerate().map(|(i, p)| cell_for(p).or_else(|| sample_arg(p, i))).collect::<Option<Vec<(Variable, String)>>>() else { continue };
                let mut vectors: Vec<Vec<(Variable, String)>> = vec![good.clone()];
                // too short / too long / ill-typed in one position
                if !good.is_empty() {
                    vectors.push(good[..good.len() - 1].to_vec());
                    let mut bad = good.clone();
                    bad[0] = match &bad[0].0 {
                        Variable::Int(_) => (Variable::from("oops"), "\"oops\"".to_string()),
                        _ => (Variable::Int(99), "99".to_string()),
                    };
                    vectors.push(bad);
                    // ill-typed in each later position too (a value no declared parameter type of
                    // that position admits); the first argument dropped (arity, shifted types)
                    for pos in 1..good.len() {
                        let wrong_val = match &good[pos].0 {
                            Variable::Int(_) | Variable::Float(_) | Variable::Bool(_) => (Variable::from("oops"), "\"oops\"".to_string()),
                            _ => (Variable::Int(99), "99".to_string()),
                        };
                        if wrong_val.0.as_type().matches(&ft.params[pos]) {
                            continue;
                        }
                        let mut wrong = good.clone();
                        wrong[pos] = wrong_val;
                        vectors.push(wrong);
                    }
                    if good.len() >= 2 {
                        vectors.push(good[1..].to_vec());
                    }
                    // a function where a non-function is expected and vice versa
                    let mut swapped = good.clone();
                    swapped[0] = match &swapped[0].0 {
                        Variable::Function(_) => (Variable::Int(3), "3".to_string()),
                        _ => match sample_arg(&simplesl::variable::Type::from(simplesl::variable::FunctionType { params: [].into(), return_type: Type::Int }), 0) {
                            Some(f) => f,
                            None => continue,
                        },
                    };
                    vectors.push(swapped);
                }
                let mut long = good.clone();
                long.push((Variable::Int(5), "5".to_string()));
                vectors.push(long);
                if let Some(pos) = ft.params.iter().position(|p| matches!(p, Type::Array(_))) {
                    let mut empty = good.clone();
                    empty[pos] = (Variable::from(Vec::<Variable>::new()), "[]".to_string());
                    vectors.push(empty);
                    // containers whose elements are of another type / only partly of the right type
                    for lit in ["[\"oops\"]", "[1, 2.5]", "[2.5]", "[[1]]", "[1, \"x\"]", "[()]", "[0; 0]", "[\"s\"; 0]", "[2.5; 0]", "[[1]; 0]"] {
                        let scratch = Interpreter::with_stdlib();
                        if let Ok(Ok(v)) = Code::parse(&scratch, lit).map(|c| c.exec()) {
                            let mut wrong = good.clone();
                            wrong[pos] = (v, lit.to_string());
                            vectors.push(wrong);
                        }
                    }
                }
                if let Some(pos) = ft.params.iter().position(|p| matches!(p, Type::Tuple(_))) {
                    if let Variable::Tuple(t) = &good[pos].0 {
                        // one element of the tuple replaced by a value of another type; one element more
                        let mut elems: Vec<Variable> = t.iter().cloned().collect();
                        elems[0] = match &elems[0] {
                            Variable::Int(_) => Variable::from("oops"),
                            _ => Variable::Int(99),
                        };
                        if let Some(l) = lit_of_tuple(&elems) {
                            let mut wrong = good.clone();
                            wrong[pos] = (Variable::Tuple(elems.clone().into()), l);
                            vectors.push(wrong);
                        }
                        let mut longer: Vec<Variable> = t.iter().cloned().collect();
                        longer.push(Variable::Int(1));
                        if let Some(l) = lit_of_tuple(&longer) {
                            let mut wrong = good.clone();
                            wrong[pos] = (Variable::Tuple(longer.into()), l);
                            vectors.push(wrong);
                        }
                    }
                }
                if let Some(pos) = ft.params.iter().position(|p| matches!(p, Type::Struct(_))) {
                    if let Type::Struct(st) = &ft.params[pos] {
                        let mut fields: Vec<String> = st.0.iter().filter_map(|(k, t)| literal_of_type(t, 0).map(|l| format!("{k} := {l}"))).collect();
                        fields.sort();
                        if fields.len() == st.0.len() {
                            // an extra field (width subtyping: fine in the language), then a missing one
                            let extra = format!("struct{{{}, zz_extra := 1}}", fields.join(", "));
                            let missing = format!("struct{{{}}}", fields[1..].join(", "));
                            for lit in [extra, missing] {
                                let scratch = Interpreter::with_stdlib();
                                if let Ok(Ok(v)) = Code::parse(&scratch, &lit).map(|c| c.exec()) {
                                    let mut other = good.clone();
                                    other[pos] = (v, lit.clone());
                                    vectors.push(other);
                                }
                            }
                        }
                    }
                }
                // every top-level cell of the session offered to every cell parameter (declared types
                // wider / narrower than the parameter's: `mut T` is invariant on both routes)
                for (pos, pt) in ft.params.iter().enumerate() {
                    if !matches!(pt, Type::Mut(_)) {
                        continue;
                    }
                    for cn in names.iter() {
                        if let (Some(Variable::Mut(_)), Some(b @ Variable::Mut(_))) = (interp.get_variable(cn), binterp.get_variable(cn)) {
                            let mut other = good.clone();
                            other[pos] = (b.clone(), cn.clone());
                            vectors.push(other);
                        }
                    }
                }
                // every top-level VALUE of the session that is not a cell (iterators built by `~`, `@`,
                // `?`; arrays; structs; modules; other functions ...) offered to every non-cell
                // parameter, by name in the language and as the replica's value through the host API:
                // both sides judge the same value against the same parameter type (at most 12 such
                // vectors per function)
                let mut offered = 0;
                'offer: for (pos, pt) in ft.params.iter().enumerate() {
                    if matches!(pt, Type::Mut(_)) {
                        continue;
                    }
                    for vn in names.iter() {
                        if vn == "std" || vn == &n {
                            continue;
                        }
                        if let (Some(a), Some(b)) = (interp.get_variable(vn), binterp.get_variable(vn)) {
                            if matches!(a, Variable::Mut(_)) || matches!(b, Variable::Mut(_)) {
                                continue;
                            }
                            let mut other = good.clone();
                            other[pos] = (b.clone(), vn.clone());
                            vectors.push(other);
                            offered += 1;
                            if offered >= 12 {
                                break 'offer;
                            }
                        }
                    }
                }
                if ft.params.len() >= 2 {
                    // all arguments packed into ONE tuple argument (arity 1 instead of n)
                    let packed = Variable::Tuple(good.iter().map(|g| g.0.clone()).collect::<Vec<_>>().into());
                    vectors.push(vec![(packed, format!("({})", good.iter().map(|g| g.1.clone()).collect::<Vec<_>>().join(", ")))]);
                }
                if ft.params.len() >= 2 {
                    // arguments in the wrong order
                    let mut rev = good.clone();
                    rev.reverse();
                    vectors.push(rev);
                }
                // soundness of the static type against the host's judgement: where the language
                // accepts `f(.., EXPR, ..)` for the expression that DEFINED a top-level value, the
                // host must accept that value in the same position (only acceptance is compared,
                // nothing is executed: EXPR may have effects and fresh iterator state)
                for (pos, pt) in ft.params.iter().enumerate() {
                    if matches!(pt, Type::Mut(_)) {
                        continue;
                    }
                    for vn in names.iter().take(24) {
                        if vn == "std" || vn == &n {
                            continue;
                        }
                        let Some(b) = binterp.get_variable(vn).cloned() else { continue };
                        if matches!(b, Variable::Mut(_)) {
                            continue;
                        }
                        let Some(expr) = defining_expression(&sc.statements, vn) else { continue };
                        let mut texts: Vec<String> = good.iter().map(|g| g.1.clone()).collect();
                        texts[pos] = format!("({expr})");
                        let text = format!("{n}({})", texts.join(", "));
                        let lang_ok = matches!(guarded(|| Code::parse(&interp, &text).map(|_| ())), Ok(Ok(())));
                        if !lang_ok {
                            continue;
                        }
                        let mut args: Vec<Variable> = good.iter().map(|g| g.0.clone()).collect();
                        args[pos] = b.clone();
                        rep.events += 1;
                        if let Ok(Err(e)) = guarded(|| f.clone().create_call(args).map(|_| ())) {
                            rep.violation = Some((
                                "host-call-accepts-differently".into(),
                                format!("`{text}` is accepted in the language, but create_call rejects the value `{vn}` holds ({expr}) in that position: {}", cerror(&e)),
                            ));
                            return rep;
                        }
                    }
                }
                for (vi, pairs) in vectors.into_iter().enumerate() {
                    let args: Vec<Variable> = pairs.iter().map(|p| p.0.clone()).collect();
                    let text = format!("{n}({})", pairs.iter().map(|p| p.1.clone()).collect::<Vec<_>>().join(", "));
                    rep.events += 2;
                    rep.hostcalls += 1;
                    // every other vector: both calls run UNSCOPED on their interpreter, as the REPL
                    // runs its inputs (a call declares nothing in its caller, whichever way it is made)
                    let unscoped = vi % 2 == 1;
                    let lang = if unscoped {
                        guarded(|| match Code::parse(&interp, &text) {
                            Ok(c) => Ok(c.exec_unscoped(&mut interp)),
                            Err(e) => Err(e),
                        })
                    } else {
                        guarded(|| Code::parse(&interp, &text).map(|c| c.exec()))
                    };
                    let host = if unscoped {
                        guarded(|| match f.clone().create_call(args.clone()) {
                            Ok(c) => Ok(c.exec_unscoped(&mut *binterp)),
                            Err(e) => Err(e),
                        })
                    } else {
                        guarded(|| f.clone().create_call(args.clone()).map(|c| c.exec()))
                    };
                    let (lang, host) = match (lang, host) {
                        (Ok(l), Ok(h)) => (l, h),
                        (Ok(Ok(Ok(v))), Err(p)) if !simplesl_verif_seams::fuel::is_fuel_panic(&p) => {
                            rep.violation = Some((
                                "host-call-result".into(),
                                format!("`{text}` yields {} in the language but panics through create_call: {p}", ccontent(&v)),
                            ));
                            return rep;
                        }
                        (l, h) => {
                            rep.log.push(format!("call {text}: panic lang={} host={} (inconclusive)", l.is_err(), h.is_err()));
                            continue;
                        }
                    };
                    let show = |r: &Result<Result<Variable, simplesl::ExecError>, simplesl::Error>| match r {
                        Err(e) => format!("rejected({})", cerror(e).split('(').next().unwrap_or("").to_string()),
                        Ok(Err(e)) => format!("ExecError::{e:?}"),
                        Ok(Ok(v)) => ccontent(v),
                    };
                    rep.log.push(format!("call {text}: lang {} host {}", show(&lang), show(&host)));
                    hist.push_str(&format!("call:{text}:{};", show(&lang)));
                    match (&lang, &host) {
                        (Err(_), Err(_)) => rep.hostcalls_rejected_both += 1,
                        (Ok(_), Err(e)) => {
                            rep.violation = Some(("host-call-accepts-differently".into(), format!("`{text}` is accepted in the language but create_call rejects it: {}", cerror(e))));
                            return rep;
                        }
                        (Err(e), Ok(_)) => {
                            rep.violation = Some(("host-call-accepts-differently".into(), format!("`{text}` is rejected in the language ({}) but create_call accepts the same arguments", cerror(e))));
                            return rep;
                        }
                        (Ok(l), Ok(h)) => {
                            if show(&lang) != show(&host) {
                                rep.violation = Some((
                                    "host-call-result".into(),
                                    format!("`{text}` yields {} in the language but {} through create_call", show(&lang), show(&host)),
                                ));
                                return rep;
                            }
                            // a call that returns one of its cell arguments returns that very cell
                            if let (Ok(Variable::Mut(lr)), Ok(Variable::Mut(hr))) = (l, h) {
                                for (pos, (hv, lit)) in pairs.iter().enumerate() {
                                    if let (Variable::Mut(hc), Some(Variable::Mut(lc))) = (hv, interp.get_variable(lit)) {
                                        if Arc::ptr_eq(lr, lc) != Arc::ptr_eq(hr, hc) {
                                            rep.violation = Some((
                                                "host-call-result".into(),
                                                format!("`{text}`: in the language the result {} argument {pos}'s cell, through create_call it {}", if Arc::ptr_eq(lr, lc) { "is" } else { "is not" }, if Arc::ptr_eq(hr, hc) { "is" } else { "is not" }),
                                            ));
                                            return rep;
                                        }
                                    }
                                }
                            }
                        }
                    }
                    // the effects of the call: every top-level variable afterwards, on both sides
                    for vn in &names {
                        if vn == "std" {
                            continue;
                        }
                        let a = interp.get_variable(vn).map(ccontent);
                        let b = binterp.get_variable(vn).map(ccontent);
                        if a != b {
                            rep.violation = Some((
                                "host-call-effect".into(),
                                format!("after `{text}`: top-level `{vn}` is {a:?} where the call was made in the language and {b:?} where it was made through create_call"),
                            ));
                            return rep;
                        }
                    }
                }
            }
        }
        rep.history_digest = digest(&hist);
        os::uninstall();
        rep
    });
    r.unwrap_or_else(|p| RunReport { harness_error: Some(format!("run thread panicked: {p}")), ..Default::default() })
}

// ---------------------------------------------------------------------------------------------
// workload

fn rename_idents(statements: &[String], rng: &mut Rng) -> Vec<String> {
    const POOL: [&str; 3] = ["f", "x", "a"];
    const KEEP: [&str; 40] = [
        "std", "io", "print", "print_array", "convert", "to_string", "len", "mod", "mut", "return", "if", "else", "match", "for", "in", "while", "loop",
        "break", "continue", "struct", "int", "float", "string", "bool", "any", "true", "false", "import", "math", "fs", "operators", "to_int", "to_float",
        "string_sum", "int_sum", "parse_int", "parse_float", "cgetline", "split", "chars",
    ];
    let ids = identifiers(statements);
    let mut map = std::collections::BTreeMap::new();
    for id in ids {
        if KEEP.contains(&id.as_str()) {
            continue;
        }
        // rename about half of the identifiers into the small pool
        if rng.chance(1, 2) {
            map.insert(id, POOL[rng.below(3)].to_string());
        }
    }
    statements
        .iter()
        .map(|s| {
            let b = s.as_bytes();
            let mut out = String::new();
            let mut i = 0;
            let mut in_str = false;
            while i < b.len() {
                if b[i] == b'"' {
                    in_str = !in_str;
                    out.push('"');
                    i += 1;
                } else if !in_str && (b[i].is_ascii_alphabetic() || b[i] == b'_') {
                    let st = i;
                    while i < b.len() && (b[i].is_ascii_alphanumeric() || b[i] == b'_') {
                        i += 1;
                    }
                    let w = &s[st..i];
                    // do not rename struct fields / module members after a dot
                    let after_dot = st > 0 && b[st - 1] == b'.';
                    out.push_str(if after_dot { w } else { map.get(w).map(|x| x.as_str()).unwrap_or(w) });
                } else {
                    let ch = s[i..].chars().next().unwrap();
                    out.push(ch);
                    i += ch.len_utf8();
                }
            }
            out
        })
        .collect()
}

// ---------------------------------------------------------------------------------------------
// generated sessions: seeded statement sequences over a small name pool (so that re-binding,
// shadowing and capture-then-rebind happen all the time), monomorphic on purpose (every value is
// an int, a cell of an int, a function, an iterator, an array, a struct or a module of ints): the
// oracle is differential (REPL route vs batch route), so no expected values are needed - the
// generator only has to keep most programs well-typed, which it does by tracking what each name
// currently denotes.

#[derive(Clone, Copy, PartialEq, Debug)]
enum GK {
    Int,
    Cell,
    Fun,
    Iter,
    Arr,
    Struct,
    Mod,
}

struct GenEnv {
    names: Vec<(String, GK)>,
}

impl GenEnv {
    fn bind(&mut self, n: &str, k: GK) {
        self.names.retain(|(m, _)| m != n);
        self.names.push((n.to_string(), k));
    }
    fn of(&self, k: GK) -> Vec<String> {
        self.names.iter().filter(|(_, g)| *g == k).map(|(n, _)| n.clone()).collect()
    }
}

const GEN_NAMES: [&str; 8] = ["a", "b", "c", "f", "g", "x", "y", "n"];

fn gen_int_expr(rng: &mut Rng, env: &GenEnv, depth: u32, effects: bool) -> String {
    let mut opts: Vec<String> = vec![format!("{}", rng.below(9))];
    for n in env.of(GK::Int) {
        opts.push(n);
    }
    for n in env.of(GK::Cell) {
        opts.push(format!("*{n}"));
        if effects {
            opts.push(format!("({n} += {})", 1 + rng.below(3)));
        }
    }
    for n in env.of(GK::Arr) {
        opts.push(format!("{n}[0]"));
        opts.push(format!("std.len({n})"));
    }
    for n in env.of(GK::Struct) {
        opts.push(format!("{n}.p"));
    }
    for n in env.of(GK::Mod) {
        opts.push(format!("{n}.v"));
    }
    if depth > 0 {
        for n in env.of(GK::Fun) {
            opts.push(format!("{n}({})", gen_int_expr(rng, env, depth - 1, effects)));
        }
        for n in env.of(GK::Mod) {
            opts.push(format!("{n}.h({})", gen_int_expr(rng, env, depth - 1, effects)));
        }
        let l = gen_int_expr(rng, env, depth - 1, effects);
        let r = gen_int_expr(rng, env, depth - 1, effects);
        opts.push(format!("({l} {} {r})", ["+", "-", "*"][rng.below(3)]));
    }
    opts[rng.below(opts.len())].clone()
}

pub fn gen_session(rng: &mut Rng) -> Vec<String> {
    let mut env = GenEnv { names: Vec::new() };
    let mut out: Vec<String> = Vec::new();
    let len = 6 + rng.below(9);
    for _ in 0..len {
        let n = GEN_NAMES[rng.below(GEN_NAMES.len())].to_string();
        let cells = env.of(GK::Cell);
        match rng.below(19) {
            15 | 16 => {
                // if-set / match arms bind a pool name for their body only
                let l = GEN_NAMES[rng.below(GEN_NAMES.len())];
                let e = gen_int_expr(rng, &env, 1, false);
                let mut inner = GenEnv { names: env.names.clone() };
                inner.bind(l, GK::Int);
                let body = gen_int_expr(rng, &inner, 1, true);
                if rng.chance(1, 2) {
                    out.push(format!("if {l}: int = {e} {{ {body} }} else {{ 0 }}"));
                } else {
                    out.push(format!("match {e} {{ {l}: int => {body}, }}"));
                }
            }
            17 if !cells.is_empty() => {
                // a closure over a cell and a constant, then the names are re-bound
                let c = &cells[rng.below(cells.len())];
                let k = gen_int_expr(rng, &env, 0, false);
                out.push(format!("{n} := (q: int) -> int {{ {c} += q; return *{c} + {k} }}"));
                env.bind(&n, GK::Fun);
            }
            0 | 1 => {
                out.push(format!("{n} := {}", gen_int_expr(rng, &env, 2, true)));
                env.bind(&n, GK::Int);
            }
            2 | 3 => {
                out.push(format!("{n} := mut {}", gen_int_expr(rng, &env, 1, false)));
                env.bind(&n, GK::Cell);
            }
            4 | 5 => {
                // a function: parameter and local names come from the same pool (they shadow)
                let p = GEN_NAMES[rng.below(GEN_NAMES.len())];
                let mut inner = GenEnv { names: env.names.clone() };
                inner.bind(p, GK::Int);
                // the function's own name denotes the function inside its body
                if p != n {
                    inner.bind(&n, GK::Fun);
                }
                let mut body = String::new();
                if rng.chance(1, 2) {
                    let l = GEN_NAMES[rng.below(GEN_NAMES.len())];
                    if l != n.as_str() {
                        body.push_str(&format!("{l} := {}; ", gen_int_expr(rng, &inner, 1, true)));
                        inner.bind(l, GK::Int);
                    }
                }
                if let (Some(c), true) = (inner.of(GK::Cell).first().cloned(), rng.chance(1, 2)) {
                    body.push_str(&format!("{c} += {p}; "));
                }
                // no recursion (termination): the own name is not offered to the return expression
                inner.names.retain(|(m, k)| !(m == &n && *k == GK::Fun));
                body.push_str(&format!("return {}", gen_int_expr(rng, &inner, 1, false)));
                out.push(format!("{n} := ({p}: int) -> int {{ {body} }}"));
                env.bind(&n, GK::Fun);
            }
            6 if !cells.is_empty() => {
                let c = &cells[rng.below(cells.len())];
                let op = ["=", "+=", "-=", "*="][rng.below(4)];
                out.push(format!("{c} {op} {}", gen_int_expr(rng, &env, 1, true)));
            }
            7 => out.push(gen_int_expr(rng, &env, 2, true)),
            8 => {
                // a block that shadows a pool name; the outer binding must survive
                let l = GEN_NAMES[rng.below(GEN_NAMES.len())];
                let mut inner = GenEnv { names: env.names.clone() };
                let e = gen_int_expr(rng, &env, 1, false);
                inner.bind(l, GK::Int);
                out.push(format!("{{ {l} := {e}; {} }}", gen_int_expr(rng, &inner, 1, true)));
            }
            9 if !cells.is_empty() => {
                let c = &cells[rng.below(cells.len())];
                let l = GEN_NAMES[rng.below(GEN_NAMES.len())];
                if l != c.as_str() {
                    out.push(format!("for {l} in [{}, {}]~ {{ {c} += {l} }}", rng.below(5), rng.below(5)));
                }
            }
            10 => {
                let m = GEN_NAMES[rng.below(GEN_NAMES.len())].to_string();
                if m != n {
                    out.push(format!("({n}, {m}) := ({}, {})", gen_int_expr(rng, &env, 1, false), gen_int_expr(rng, &env, 1, false)));
                    env.bind(&n, GK::Int);
                    env.bind(&m, GK::Int);
                }
            }
            11 => {
                out.push(format!("{n} := mod {{ v := {}; h := (q: int) -> int {{ return q + v }} }}", gen_int_expr(rng, &env, 1, false)));
                env.bind(&n, GK::Mod);
            }
            12 => {
                out.push(format!("{n} := [{}, {}, {}]", gen_int_expr(rng, &env, 1, false), gen_int_expr(rng, &env, 1, false), rng.below(9)));
                env.bind(&n, GK::Arr);
            }
            13 => {
                let arrs = env.of(GK::Arr);
                if let Some(a) = arrs.first() {
                    out.push(format!("{n} := {a}~"));
                } else {
                    out.push(format!("{n} := [{}, 2, 3]~", rng.below(9)));
                }
                env.bind(&n, GK::Iter);
            }
            14 => {
                let its = env.of(GK::Iter);
                if let Some(i) = its.first() {
                    match rng.below(3) {
                        0 => out.push(format!("{i}()")),
                        1 => {
                            out.push(format!("{n} := {i} $]"));
                            env.bind(&n, GK::Arr);
                            // (a collected array may be empty: indexing it is not offered)
                            env.names.retain(|(m, _)| m != &n);
                        }
                        _ => {
                            out.push(format!("{n} := {i} $0 (s: int, e: int) -> int {{ return s + e }}"));
                            env.bind(&n, GK::Int);
                        }
                    }
                }
            }
            _ => {
                out.push(format!("{n} := struct{{p := {}, q := {}}}", gen_int_expr(rng, &env, 1, false), rng.below(9)));
                env.bind(&n, GK::Struct);
            }
        }
    }
    // final observation of everything that is an int or a cell
    let mut obs: Vec<String> = env.of(GK::Int);
    obs.extend(env.of(GK::Cell).into_iter().map(|c| format!("*{c}")));
    obs.extend(env.of(GK::Fun).into_iter().map(|f| format!("{f}(1)")));
    if obs.len() >= 2 {
        out.push(format!("({})", obs.join(", ")));
    } else if let Some(o) = obs.first() {
        out.push(o.clone());
    }
    out
}

pub fn session_pool() -> Vec<(String, Vec<String>)> {
    let mut v: Vec<(String, Vec<String>)> = Vec::new();
    for (n, t) in SESSIONS {
        v.push((n.to_string(), t.lines().map(|l| l.to_string()).collect()));
    }
    for p in corpus::repo_corpus() {
        if !(p.name.starts_with("example:") || p.name.starts_with("readme")) {
            continue;
        }
        if let Some(st) = split_statements(&p.text) {
            if st.len() >= 2 && st.len() <= 40 {
                v.push((p.name.clone(), st));
            }
        }
    }
    v
}

pub fn gen(seed: u64, boot_seed: u64, run: u64, pool: &[(String, Vec<String>)]) -> Scenario {
    let mut rng = Rng::new(derive_n(seed, "c17-workload", run));
    let key_seed = derive_n(seed, "c17-keys", run);
    // one run in three executes a freshly generated session instead of one from the pool
    let generated = if rng.chance(1, 3) { Some((format!("generated{run}"), gen_session(&mut rng))) } else { None };
    let (name, base) = match &generated {
        Some((n, b)) => (n, b),
        None => {
            let e = &pool[rng.below(pool.len())];
            (&e.0, &e.1)
        }
    };
    let mut statements = base.clone();
    let mut name = name.clone();
    if statements.len() > 15 {
        statements.truncate(15);
    }
    if rng.chance(1, 3) && !name.starts_with("kf_") && generated.is_none() {
        statements = rename_idents(&statements, &mut rng);
        name.push_str("+renamed");
    }
    let mut ops = Vec::new();
    let mut left = statements.len();
    let style = rng.below(3);
    while left > 0 {
        let k = match style {
            0 => 1,
            1 => 1 + rng.below(3),
            _ => 1 + rng.below(left),
        }
        .min(left);
        ops.push(HostOp::Feed(k));
        left -= k;
        if rng.chance(1, 4) {
            ops.push(HostOp::Scoped(SCOPED_PROGS[rng.below(SCOPED_PROGS.len())].to_string()));
        }
    }
    let again = if rng.chance(1, 2) { AGAIN_PROGS[rng.below(AGAIN_PROGS.len())].to_string() } else { String::new() };
    Scenario { boot_seed, key_seed, name, statements, ops, again, probe_calls: rng.chance(2, 3) }
}

// ---------------------------------------------------------------------------------------------
// worker / single / minimise

pub fn worker(input: &Value) -> Value {
    let seed = input["seed"].as_u64().unwrap();
    let boot_seed = input["boot_seed"].as_u64().unwrap();
    let shard = input["shard"].as_u64().unwrap();
    let shards = input["shards"].as_u64().unwrap();
    let runs = input["runs"].as_u64().unwrap();
    crate::boot::boot(boot_seed);
    crate::run::FUEL_BUDGET.store(20_000, std::sync::atomic::Ordering::Relaxed);
    let pool = session_pool();
    let mut seen_violations: std::collections::BTreeSet<(String, String)> = Default::default();
    let mut violations = Vec::new();
    let mut harness_errors = Vec::new();
    let mut n = 0u64;
    let mut c = RunReport::default();
    let mut hist = BTreeSet::new();
    let mut samples = Vec::new();
    let want_trace = input["trace"].as_bool().unwrap_or(false);
    let mut trace: Vec<Value> = Vec::new();
    let mut run = shard;
    let mut abandoned_runs = 0;
    while run < runs {
        let sc = gen(seed, boot_seed, run, &pool);
        if std::env::var_os("VERIF_TRACE").is_some() {
            eprintln!("run {run}: {}", sc.to_json());
        }
        let t_run = std::time::Instant::now();
        let rep = run_scenario(&sc);
        if std::env::var_os("VERIF_TRACE").is_some() {
            eprintln!("took {} ms: {}", t_run.elapsed().as_millis(), sc.name);
        }
        n += 1;
        if want_trace {
            trace.push(json!([run, trace_digest(&rep), sc.to_json()]));
        }
        c.events += rep.events;
        c.prefixes_compared += rep.prefixes_compared;
        c.prefixes_inconclusive += rep.prefixes_inconclusive;
        c.scoped_checked += rep.scoped_checked;
        c.again_checked += rep.again_checked;
        c.hostcalls += rep.hostcalls;
        c.hostcalls_rejected_both += rep.hostcalls_rejected_both;
        c.variables_compared += rep.variables_compared;
        hist.insert(rep.history_digest);
        if let Some(h) = &rep.harness_error {
            harness_errors.push(json!({"what": h, "scenario": sc.to_json()}));
            // circuit breaker (see cellsim::worker): two runs abandoned by the watchdog end the worker
            if h.contains(crate::run::WATCHDOG) {
                abandoned_runs += 1;
                if abandoned_runs >= 2 {
                    harness_errors.push(json!({"what": "worker stopped after two abandoned runs"}));
                    break;
                }
            }
        }
        if run % 40 == shard % 40 {
            let again = run_scenario(&sc);
            if again.log != rep.log || again.violation != rep.violation {
                harness_errors.push(json!({"what": "same scenario, different log", "scenario": sc.to_json(), "first": rep.log, "second": again.log}));
            }
        }
        if let Some((class, detail)) = &rep.violation {
            // one candidate per (session, class): a defect that fails one session over and over
            // must not use up the slots of a different one
            if violations.len() < 12 && seen_violations.insert((sc.name.clone(), class.clone())) {
                violations.push(json!({"class": class, "detail": detail, "subject_id": sc.name, "scenario": sc.to_json(), "log": rep.log}));
            }
        }
        if samples.len() < 2 && rep.prefixes_compared >= 3 {
            samples.push(json!({"scenario": sc.to_json(), "log": rep.log}));
        }
        run += shards;
    }
    json!({"boot_seed": boot_seed, "runs": n, "events": c.events, "prefixes_compared": c.prefixes_compared, "prefixes_inconclusive": c.prefixes_inconclusive,
           "scoped_checked": c.scoped_checked, "again_checked": c.again_checked, "hostcalls": c.hostcalls, "hostcalls_rejected_both": c.hostcalls_rejected_both,
           "variables_compared": c.variables_compared, "hist_digests": hist.iter().map(|d| format!("{d:016x}")).collect::<Vec<_>>(),
           "sessions_in_pool": pool.len(), "violations": violations, "harness_errors": harness_errors, "samples": samples, "trace": trace})
}

pub fn trace_digest(rep: &RunReport) -> String {
    format!("{:016x}", digest(&format!("{:?}#{:?}", rep.log, rep.violation)))
}

pub fn single(input: &Value) -> Value {
    let sc = Scenario::from_json(input);
    crate::boot::boot(sc.boot_seed);
    crate::run::FUEL_BUDGET.store(20_000, std::sync::atomic::Ordering::Relaxed);
    let rep = run_scenario(&sc);
    json!({"violation": rep.violation.as_ref().map(|(c, d)| json!([c, d])), "log": rep.log, "harness_error": rep.harness_error, "trace_digest": trace_digest(&rep)})
}

/// ddmin over statements (all fed one by one afterwards), then drop the extras.
pub fn minimise(input: &Value) -> Value {
    let sc = Scenario::from_json(&input["scenario"]);
    let class = input["class"].as_str().unwrap().to_string();
    crate::boot::boot(sc.boot_seed);
    crate::run::FUEL_BUDGET.store(20_000, std::sync::atomic::Ordering::Relaxed);
    let fails = |s: &Scenario| run_scenario(s).violation.as_ref().map_or(false, |(c, _)| *c == class);
    if !fails(&sc) {
        return json!({"reproduced": false});
    }
    let mut trials = 0u64;
    let mut best = sc.clone();
    // simplify the host's behaviour first: one statement per input, no extras
    let mut simple = sc.clone();
    simple.ops = (0..sc.statements.len()).map(|_| HostOp::Feed(1)).collect();
    simple.again = String::new();
    trials += 1;
    if fails(&simple) {
        best = simple;
    } else if !sc.again.is_empty() {
        let mut only_again = sc.clone();
        only_again.statements.clear();
        only_again.ops.clear();
        only_again.probe_calls = false;
        trials += 1;
        if fails(&only_again) {
            best = only_again;
        }
    }
    // when the way the statements are grouped into inputs matters, shrink input-wise: an item is
    // one REPL input (its statements) together with the scoped executions that follow it
    if !best.statements.is_empty() && !best.ops.iter().all(|o| matches!(o, HostOp::Feed(1))) {
        let mut groups: Vec<(Vec<String>, Vec<HostOp>)> = Vec::new();
        let mut pos = 0usize;
        for op in &best.ops {
            match op {
                HostOp::Feed(k) => {
                    let end = (pos + k).min(best.statements.len());
                    groups.push((best.statements[pos..end].to_vec(), vec![]));
                    pos = end;
                }
                other => {
                    if let Some(g) = groups.last_mut() {
                        g.1.push(other.clone());
                    }
                }
            }
        }
        let template = best.clone();
        let build = |gs: &[(Vec<String>, Vec<HostOp>)]| {
            let mut s = template.clone();
            s.statements = gs.iter().flat_map(|g| g.0.clone()).collect();
            s.ops = gs.iter().flat_map(|g| std::iter::once(HostOp::Feed(g.0.len())).chain(g.1.iter().cloned())).collect();
            s
        };
        let min = crate::ddmin::ddmin(&groups, |cand| {
            trials += 1;
            fails(&build(cand))
        });
        // drop the scoped executions if they are not needed
        let stripped: Vec<(Vec<String>, Vec<HostOp>)> = min.iter().map(|g| (g.0.clone(), vec![])).collect();
        trials += 1;
        best = if fails(&build(&stripped)) { build(&stripped) } else { build(&min) };
    }
    if !best.statements.is_empty() {
        let feeds_single = best.ops.iter().all(|o| matches!(o, HostOp::Feed(1)));
        if feeds_single {
            let st = best.statements.clone();
            let template = best.clone();
            let min = crate::ddmin::ddmin(&st, |cand| {
                trials += 1;
                let mut s = template.clone();
                s.statements = cand.to_vec();
                s.ops = (0..cand.len()).map(|_| HostOp::Feed(1)).collect();
                fails(&s)
            });
            best.statements = min.clone();
            best.ops = (0..min.len()).map(|_| HostOp::Feed(1)).collect();
        }
    }
    let rep = run_scenario(&best);
    json!({"reproduced": rep.violation.is_some(), "scenario": best.to_json(), "detail": rep.violation.as_ref().map(|v| v.1.clone()), "log": rep.log, "trials": trials})
}
