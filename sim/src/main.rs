mod keys;
mod prng;
use std::collections::HashSet;
fn main() {
    for seed in [1u64, 2, 1, 3] {
        let h = std::thread::spawn(move || {
            keys::set_key_seed(seed);
            let s: HashSet<&str> = ["a", "b", "c", "d", "e", "f"].into_iter().collect();
            let v: Vec<_> = s.iter().cloned().collect();
            (v.join(""), keys::calls_on_this_thread())
        });
        println!("{seed}: {:?}", h.join().unwrap());
    }
    println!("total getrandom calls {}", keys::CALLS.load(std::sync::atomic::Ordering::Relaxed));
}
