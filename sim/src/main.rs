//! simctl - deterministic simulation with fault injection for mpolosak/SimpleSL.
mod boot;
mod canon;
mod cellmodel;
mod cellsim;
mod ddmin;
mod detalloc;
mod sched;
mod corpus;
mod driver;
mod hashsim;
mod keys;
mod mirisim;
mod ossim;
mod prng;
mod replsim;
mod proc;
mod run;
mod selftest;
mod universe;

use serde_json::Value;

#[global_allocator]
static GLOBAL: detalloc::DetAlloc = detalloc::DetAlloc;

pub fn replay_other(sim: &str, v: &Value) -> Result<bool, String> {
    driver::confirm_any(sim, v)
}

fn usage() -> ! {
    eprintln!("usage: simctl check <C03|C05|C13|C15|C16|C17|C18> <quick|thorough> | replay <file> | worker <sim> | single <sim> | selftest");
    std::process::exit(2)
}

fn main() {
    run::install_panic_hook();
    let args: Vec<String> = std::env::args().collect();
    if args.len() < 2 {
        usage();
    }
    let code = match args[1].as_str() {
        "check" => {
            if args.len() < 4 {
                usage();
            }
            let (p, tier) = (args[2].as_str(), args[3].as_str());
            if tier != "quick" && tier != "thorough" {
                usage();
            }
            match p {
                "C05" | "C15" => driver::check_hashsim(p, tier),
                "C13" | "C16" => driver::check_cellsim(p, tier),
                "C18" | "C03" => driver::check_ossim(p, tier),
                "C17" => driver::check_replsim(p, tier),
                _ => usage(),
            }
        }
        "worker" => {
            let input = proc::read_stdin_json();
            let out = match args.get(2).map(|s| s.as_str()) {
                Some("hashsim") => hashsim::worker(&input),
                Some("cellsim") => cellsim::worker(&input),
                Some("ossim") => ossim::worker(&input),
                Some("replsim") => replsim::worker(&input),
                _ => usage(),
            };
            println!("{out}");
            0
        }
        "single" => {
            let input = proc::read_stdin_json();
            let out = match args.get(2).map(|s| s.as_str()) {
                Some("hashsim") => hashsim::single(&input),
                Some("cellsim") => cellsim::single(&input),
                Some("ossim") => ossim::single(&input),
                Some("replsim") => replsim::single(&input),
                _ => usage(),
            };
            println!("{out}");
            0
        }
        "minimise" => {
            let input = proc::read_stdin_json();
            let out = match args.get(2).map(|s| s.as_str()) {
                Some("cellsim") => cellsim::minimise(&input),
                Some("ossim") => ossim::minimise(&input),
                Some("replsim") => replsim::minimise(&input),
                _ => usage(),
            };
            println!("{out}");
            0
        }
        "selftest" => selftest::selftest(&args[2..]),
        "handshakes" => {
            cellsim::handshake_survey(args.get(2).and_then(|s| s.parse().ok()).unwrap_or(50));
            0
        }
        // the Miri phase of `check C16 thorough` on its own: simctl miri <processes> <rounds>
        "miri" => {
            let procs = args.get(2).and_then(|s| s.parse().ok()).unwrap_or(4);
            let rounds = args.get(3).and_then(|s| s.parse().ok()).unwrap_or(6);
            let ph = mirisim::phase(driver::verif_seed(), procs, rounds);
            println!("{}", serde_json::to_string_pretty(&ph.coverage).unwrap());
            for v in &ph.violations {
                println!("MIRI-VIOLATION {}", serde_json::to_string(v).unwrap());
            }
            for h in &ph.harness_errors {
                println!("MIRI-HARNESS-ERROR {h}");
            }
            if !ph.harness_errors.is_empty() {
                2
            } else if !ph.violations.is_empty() {
                1
            } else {
                0
            }
        }
        "replay" => driver::replay(args.get(2).map(|s| s.as_str()).unwrap_or_else(|| usage())),
        _ => usage(),
    };
    boot::leave_private_cwd();
    std::process::exit(code);
}
