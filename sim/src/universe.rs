//! The type universe shared by C05 (type-operation scripts, templates) and C15 (round trip).
//! Types are represented by a small AST owned by the harness (`Ty`), rendered to SimpleSL type
//! syntax and - independently of the parser - built through the crate's `Type` constructors.
use crate::prng::Rng;
use simplesl::variable::{FunctionType, StructType, Type};
use std::collections::{BTreeSet, HashMap};
use std::sync::Arc;

#[derive(Clone, Debug, PartialEq, Eq, PartialOrd, Ord, Hash)]
pub enum Ty {
    Bool,
    Int,
    Float,
    Str,
    Void,
    Any,
    Never,
    Arr(Box<Ty>),
    Tup(Vec<Ty>),
    Mut(Box<Ty>),
    Struct(Vec<(String, Ty)>),
    Fun(Vec<Ty>, Box<Ty>),
    Union(Vec<Ty>),
}

pub const ATOMS: [Ty; 7] = [Ty::Bool, Ty::Int, Ty::Float, Ty::Str, Ty::Void, Ty::Any, Ty::Never];
pub const FIELD_NAMES: [&str; 3] = ["a", "b", "c"];

impl Ty {
    pub fn is_union(&self) -> bool {
        matches!(self, Ty::Union(_))
    }

    /// SimpleSL source text, members in the order stored (not canonical).
    pub fn src(&self) -> String {
        match self {
            Ty::Bool => "bool".into(),
            Ty::Int => "int".into(),
            Ty::Float => "float".into(),
            Ty::Str => "string".into(),
            Ty::Void => "()".into(),
            Ty::Any => "any".into(),
            Ty::Never => "!".into(),
            Ty::Arr(e) => format!("[{}]", e.src()),
            Ty::Tup(ts) => format!("({})", ts.iter().map(Ty::src).collect::<Vec<_>>().join(", ")),
            Ty::Mut(e) => format!("mut {}", e.src_paren()),
            Ty::Struct(fs) => format!(
                "struct{{{}}}",
                fs.iter().map(|(k, t)| format!("{k}: {}", t.src())).collect::<Vec<_>>().join(", ")
            ),
            Ty::Fun(ps, r) => format!(
                "({})->{}",
                ps.iter().map(Ty::src).collect::<Vec<_>>().join(", "),
                r.src_paren()
            ),
            Ty::Union(ms) => ms.iter().map(Ty::src).collect::<Vec<_>>().join("|"),
        }
    }

    fn src_paren(&self) -> String {
        if self.is_union() {
            format!("({})", self.src())
        } else {
            self.src()
        }
    }

    /// Builds the crate's `Type` through its constructors only (no parser involved).
    pub fn build(&self) -> Type {
        match self {
            Ty::Bool => Type::Bool,
            Ty::Int => Type::Int,
            Ty::Float => Type::Float,
            Ty::Str => Type::String,
            Ty::Void => Type::Void,
            Ty::Any => Type::Any,
            Ty::Never => Type::Never,
            Ty::Arr(e) => Type::Array(Arc::new(e.build())),
            Ty::Tup(ts) => Type::Tuple(ts.iter().map(Ty::build).collect()),
            Ty::Mut(e) => Type::Mut(Arc::new(e.build())),
            Ty::Struct(fs) => {
                let m: HashMap<Arc<str>, Type> =
                    fs.iter().map(|(k, t)| (Arc::<str>::from(k.as_str()), t.build())).collect();
                Type::Struct(StructType(Arc::new(m)))
            }
            Ty::Fun(ps, r) => Type::Function(Arc::new(FunctionType {
                params: ps.iter().map(Ty::build).collect(),
                return_type: r.build(),
            })),
            Ty::Union(ms) => ms.iter().map(Ty::build).reduce(|a, b| a | b).unwrap(),
        }
    }

    pub fn depth(&self) -> usize {
        match self {
            Ty::Arr(e) | Ty::Mut(e) => 1 + e.depth(),
            Ty::Tup(ts) | Ty::Union(ts) => 1 + ts.iter().map(Ty::depth).max().unwrap_or(0),
            Ty::Struct(fs) => 1 + fs.iter().map(|(_, t)| t.depth()).max().unwrap_or(0),
            Ty::Fun(ps, r) => 1 + ps.iter().map(Ty::depth).max().unwrap_or(0).max(r.depth()),
            _ => 0,
        }
    }

    /// number of print orders the type can take: product over unions of k! and structs of n!
    /// Number of print orders of the type (saturating: 40-field structs have more than 2^64).
    pub fn orders(&self) -> u64 {
        fn fact(n: usize) -> u64 {
            (1..=n as u64).fold(1u64, |a, b| a.saturating_mul(b))
        }
        fn prod(it: impl Iterator<Item = u64>) -> u64 {
            it.fold(1u64, |a, b| a.saturating_mul(b))
        }
        match self {
            Ty::Arr(e) | Ty::Mut(e) => e.orders(),
            Ty::Tup(ts) => prod(ts.iter().map(Ty::orders)),
            Ty::Union(ts) => fact(ts.len()).saturating_mul(prod(ts.iter().map(Ty::orders))),
            Ty::Struct(fs) => fact(fs.len()).saturating_mul(prod(fs.iter().map(|(_, t)| t.orders()))),
            Ty::Fun(ps, r) => prod(ps.iter().map(Ty::orders)).saturating_mul(r.orders()),
            _ => 1,
        }
    }

    /// A union as the grammar / `concat` would normalise it is only kept when it has >= 2 distinct
    /// members, none of which is `any`, `!` or itself a union.
    pub fn union_of(ms: Vec<Ty>) -> Option<Ty> {
        let set: BTreeSet<Ty> = ms.into_iter().collect();
        if set.len() < 2 || set.iter().any(|m| matches!(m, Ty::Any | Ty::Never | Ty::Union(_))) {
            return None;
        }
        Some(Ty::Union(set.into_iter().collect()))
    }
}

/// All depth-1 types over the atoms (every constructor applied to atoms), enumerated.
pub fn depth1() -> Vec<Ty> {
    let a = ATOMS.to_vec();
    // `small`: atoms used in the higher-arity constructors to keep the enumeration finite
    let small = [Ty::Int, Ty::Float, Ty::Str, Ty::Void, Ty::Any];
    let mut out: BTreeSet<Ty> = BTreeSet::new();
    for t in &a {
        out.insert(Ty::Arr(Box::new(t.clone())));
        out.insert(Ty::Mut(Box::new(t.clone())));
        out.insert(Ty::Fun(vec![], Box::new(t.clone())));
        out.insert(Ty::Struct(vec![("a".into(), t.clone())]));
        for u in &a {
            out.insert(Ty::Tup(vec![t.clone(), u.clone()]));
            out.insert(Ty::Fun(vec![t.clone()], Box::new(u.clone())));
            out.insert(Ty::Struct(vec![("a".into(), t.clone()), ("b".into(), u.clone())]));
            if let Some(x) = Ty::union_of(vec![t.clone(), u.clone()]) {
                out.insert(x);
            }
        }
    }
    out.insert(Ty::Struct(vec![]));
    // field names that start like keywords or type names (the grammar's `ident` has a negative
    // look-ahead for restricted keywords followed by a non-identifier character)
    for names in [["mutable", "structure"], ["anything", "int2"], ["return5", "truex"], ["_x", "a_b9"], ["modx", "forx"], ["boolean", "stringy"], ["floaty", "whiley"]] {
        out.insert(Ty::Struct(vec![(names[0].into(), Ty::Int), (names[1].into(), Ty::Str)]));
        out.insert(Ty::Mut(Box::new(Ty::Struct(vec![(names[0].into(), Ty::Union(vec![Ty::Int, Ty::Str]))]))));
        out.insert(Ty::Fun(vec![Ty::Struct(vec![(names[1].into(), Ty::Any)])], Box::new(Ty::Struct(vec![(names[0].into(), Ty::Void)]))));
    }
    for t in &small {
        for u in &small {
            for v in &small {
                out.insert(Ty::Tup(vec![t.clone(), u.clone(), v.clone()]));
                out.insert(Ty::Fun(vec![t.clone(), u.clone()], Box::new(v.clone())));
                out.insert(Ty::Struct(vec![
                    ("a".into(), t.clone()),
                    ("b".into(), u.clone()),
                    ("c".into(), v.clone()),
                ]));
                if let Some(x) = Ty::union_of(vec![t.clone(), u.clone(), v.clone()]) {
                    out.insert(x);
                }
            }
        }
    }
    // higher arities (the enumeration above stops at 2 parameters / 3 components): a fixed sample
    let (i, st, f, b) = (Ty::Int, Ty::Str, Ty::Float, Ty::Bool);
    let f3 = Ty::Fun(vec![i.clone(), st.clone(), f.clone()], Box::new(b.clone()));
    let wide = vec![
        f3.clone(),
        Ty::Fun(vec![i.clone(), i.clone(), i.clone()], Box::new(i.clone())),
        Ty::Fun(vec![Ty::Any, i.clone(), st.clone(), f.clone()], Box::new(Ty::Void)),
        Ty::Fun(vec![Ty::Arr(Box::new(i.clone())), Ty::Tup(vec![i.clone(), st.clone()]), Ty::Fun(vec![], Box::new(i.clone()))], Box::new(Ty::Union(vec![i.clone(), st.clone()]))),
        Ty::Fun(vec![f3.clone()], Box::new(Ty::Fun(vec![st.clone(), st.clone(), st.clone()], Box::new(st.clone())))),
        Ty::Tup(vec![i.clone(), st.clone(), f.clone(), b.clone()]),
        Ty::Tup(vec![i.clone(), st.clone(), f.clone(), b.clone(), Ty::Void]),
        Ty::Tup(vec![Ty::Tup(vec![i.clone(), i.clone(), i.clone()]), i.clone(), Ty::Tup(vec![st.clone(), st.clone()])]),
        Ty::Struct(vec![("a".into(), i.clone()), ("b".into(), st.clone()), ("c".into(), f.clone()), ("d".into(), b.clone())]),
        Ty::Struct(vec![("a".into(), f3.clone()), ("b".into(), Ty::Union(vec![i.clone(), st.clone()])), ("c".into(), Ty::Mut(Box::new(i.clone()))), ("d".into(), Ty::Arr(Box::new(st.clone()))), ("e".into(), Ty::Void)]),
        Ty::Union(vec![i.clone(), st.clone(), f.clone(), b.clone()]),
        Ty::Union(vec![i.clone(), st.clone(), f.clone(), b.clone(), Ty::Arr(Box::new(i.clone()))]),
        Ty::Mut(Box::new(f3.clone())),
        Ty::Arr(Box::new(f3.clone())),
        Ty::Union(vec![f3.clone(), i.clone()]),
        Ty::Struct(vec![]),
        Ty::Arr(Box::new(Ty::Struct(vec![]))),
        Ty::Fun(vec![Ty::Struct(vec![])], Box::new(Ty::Struct(vec![]))),
        Ty::Union(vec![Ty::Struct(vec![]), i.clone()]),
    ];
    for w in wide {
        out.insert(w);
    }
    // very wide and very deep (but not exponentially nested) types: size is no reason for a type
    // not to survive printing
    let atoms4 = [i.clone(), st.clone(), f.clone(), b.clone()];
    let fn_n = |n: usize| Ty::Fun((0..n).map(|k| atoms4[k % 4].clone()).collect(), Box::new(atoms4[n % 4].clone()));
    out.insert(Ty::Tup((0..40).map(|k| atoms4[k % 4].clone()).collect()));
    out.insert(Ty::Tup((0..12).map(|k| if k % 3 == 0 { Ty::Arr(Box::new(Ty::Union(vec![i.clone(), st.clone()]))) } else { fn_n(k % 3) }).collect()));
    out.insert(Ty::Struct((0..24).map(|k| (format!("f{k:02}"), fn_n(k % 5))).collect()));
    out.insert(Ty::Struct((0..30).map(|k| (format!("g{k:02}"), atoms4[k % 4].clone())).collect()));
    out.insert(Ty::Union((0..17).map(|k| Ty::Fun((0..k).map(|j| atoms4[j % 4].clone()).collect(), Box::new(i.clone()))).collect()));
    out.insert(Ty::Union((0..9).map(|k| Ty::Arr(Box::new(Ty::Tup(vec![atoms4[k % 4].clone(); 2 + k / 4])))).chain([Ty::Void, st.clone()]).collect()));
    out.insert(fn_n(16));
    // many brackets in one flat type
    out.insert(Ty::Tup((0..36).map(|k| Ty::Arr(Box::new(atoms4[k % 4].clone()))).collect()));
    out.insert(Ty::Struct((0..40).map(|k| (format!("h{k:02}"), fn_n(k % 3))).collect()));
    out.insert(Ty::Union((0..34).map(|k| Ty::Arr(Box::new(Ty::Tup(vec![atoms4[k % 4].clone(); 2 + k / 4])))).collect()));
    let mut deep_arr = i.clone();
    let mut deep_mut = st.clone();
    let mut deep_fn = f.clone();
    // (the grammar backtracks exponentially on nested brackets - depth 20 of `[` already takes
    // most of a second to parse - so depth stays moderate; width is what is large here)
    for _ in 0..7 {
        deep_arr = Ty::Arr(Box::new(deep_arr));
    }
    for _ in 0..6 {
        deep_mut = Ty::Mut(Box::new(deep_mut));
    }
    for _ in 0..8 {
        deep_fn = Ty::Fun(vec![], Box::new(deep_fn));
    }
    out.insert(deep_arr);
    out.insert(deep_mut);
    out.insert(deep_fn);
    out.into_iter().collect()
}

/// The "interesting" depth-1 types used as building blocks for depth 2: every constructor with
/// at least one union-prone or order-prone shape.
pub fn blocks() -> Vec<Ty> {
    let i = Ty::Int;
    let f = Ty::Float;
    let s = Ty::Str;
    let u2 = Ty::union_of(vec![i.clone(), s.clone()]).unwrap();
    let u3 = Ty::union_of(vec![i.clone(), f.clone(), s.clone()]).unwrap();
    vec![
        i.clone(),
        s.clone(),
        Ty::Void,
        Ty::Any,
        Ty::Never,
        u2.clone(),
        u3.clone(),
        Ty::Arr(Box::new(i.clone())),
        Ty::Arr(Box::new(Ty::Never)),
        Ty::Arr(Box::new(u2.clone())),
        Ty::Tup(vec![i.clone(), s.clone()]),
        Ty::Tup(vec![u2.clone(), f.clone()]),
        Ty::Mut(Box::new(i.clone())),
        Ty::Mut(Box::new(u2.clone())),
        Ty::Struct(vec![]),
        Ty::Struct(vec![("a".into(), i.clone())]),
        Ty::Struct(vec![("a".into(), i.clone()), ("b".into(), s.clone())]),
        Ty::Struct(vec![("a".into(), i.clone()), ("b".into(), i.clone()), ("c".into(), i.clone())]),
        Ty::Struct(vec![("a".into(), u2.clone()), ("b".into(), f.clone())]),
        Ty::Fun(vec![], Box::new(i.clone())),
        Ty::Fun(vec![], Box::new(u2.clone())),
        Ty::Fun(vec![i.clone()], Box::new(s.clone())),
        Ty::Fun(vec![u2.clone()], Box::new(Ty::Void)),
        Ty::Fun(vec![i.clone(), s.clone()], Box::new(u3.clone())),
        Ty::Fun(vec![], Box::new(Ty::Tup(vec![Ty::Bool, i.clone()]))),
    ]
}

/// Depth-2 types: every constructor applied to the building blocks (unary constructors and pairs
/// enumerated completely; triples for unions and structs).
pub fn depth2() -> Vec<Ty> {
    let b = blocks();
    let mut out: BTreeSet<Ty> = BTreeSet::new();
    for t in &b {
        out.insert(Ty::Arr(Box::new(t.clone())));
        out.insert(Ty::Mut(Box::new(t.clone())));
        out.insert(Ty::Fun(vec![], Box::new(t.clone())));
        out.insert(Ty::Struct(vec![("a".into(), t.clone())]));
        for u in &b {
            out.insert(Ty::Tup(vec![t.clone(), u.clone()]));
            out.insert(Ty::Fun(vec![t.clone()], Box::new(u.clone())));
            out.insert(Ty::Struct(vec![("a".into(), t.clone()), ("b".into(), u.clone())]));
            let ms: Vec<Ty> = [t, u]
                .iter()
                .flat_map(|x| match x {
                    Ty::Union(ms) => ms.clone(),
                    other => vec![(*other).clone()],
                })
                .collect();
            if let Some(x) = Ty::union_of(ms) {
                out.insert(x);
            }
        }
    }
    // unions of three non-atomic members and three-field structs over the order-prone blocks
    let prone: Vec<Ty> = b.iter().filter(|t| t.depth() >= 1 && !t.is_union()).cloned().collect();
    for (i, t) in prone.iter().enumerate() {
        for (j, u) in prone.iter().enumerate().skip(i + 1) {
            for v in prone.iter().skip(j + 1).step_by(3) {
                if let Some(x) = Ty::union_of(vec![t.clone(), u.clone(), v.clone()]) {
                    out.insert(x);
                }
            }
        }
    }
    out.into_iter().collect()
}

/// Unions of three members whose per-member answers (element, result, field, ...) are related by
/// subtyping: `W(x)|W(y)|W(z)` for every wrapper W and every 3-subset of a small family of
/// related types. Folds over union members that absorb subtypes or depend on the visiting order
/// answer differently for different orders of such unions.
pub fn related_unions() -> Vec<Ty> {
    let i = Ty::Int;
    let s = Ty::Str;
    let u2 = Ty::union_of(vec![i.clone(), s.clone()]).unwrap();
    let fam: Vec<Ty> = vec![
        i.clone(),
        Ty::Any,
        u2.clone(),
        Ty::Arr(Box::new(i.clone())),
        Ty::Arr(Box::new(Ty::Any)),
        s.clone(),
        Ty::Float,
        Ty::Arr(Box::new(u2.clone())),
        Ty::Tup(vec![i.clone(), s.clone()]),
        Ty::Tup(vec![Ty::Any, s.clone()]),
    ];
    let wrappers: Vec<Box<dyn Fn(&Ty) -> Ty>> = vec![
        Box::new(|x| Ty::Arr(Box::new(x.clone()))),
        Box::new(|x| Ty::Fun(vec![], Box::new(x.clone()))),
        Box::new(|x| Ty::Fun(vec![x.clone()], Box::new(Ty::Int))),
        Box::new(|x| Ty::Mut(Box::new(x.clone()))),
        Box::new(|x| Ty::Struct(vec![("a".into(), x.clone())])),
        Box::new(|x| Ty::Struct(vec![("a".into(), x.clone()), ("b".into(), Ty::Int)])),
        Box::new(|x| Ty::Tup(vec![x.clone(), Ty::Int])),
        Box::new(|x| Ty::Fun(vec![], Box::new(Ty::Tup(vec![Ty::Bool, x.clone()])))),
    ];
    let mut out: BTreeSet<Ty> = BTreeSet::new();
    for w in &wrappers {
        for a in 0..fam.len() {
            for b in a + 1..fam.len() {
                for c in b + 1..fam.len() {
                    if let Some(t) = Ty::union_of(vec![w(&fam[a]), w(&fam[b]), w(&fam[c])]) {
                        out.insert(t);
                    }
                }
                if let Some(t) = Ty::union_of(vec![w(&fam[a]), w(&fam[b])]) {
                    out.insert(t);
                }
            }
        }
    }
    // a second family: struct types related by WIDTH (more fields = subtype), incomparable pairs
    // with a common subtype among them
    let st = |fields: &[&str]| Ty::Struct(fields.iter().map(|f| (f.to_string(), i.clone())).collect());
    let sfam: Vec<Ty> = vec![st(&[]), st(&["a"]), st(&["b"]), st(&["a", "b"]), st(&["a", "b", "c"])];
    for w in &wrappers {
        for a in 0..sfam.len() {
            for b in a + 1..sfam.len() {
                for c in b + 1..sfam.len() {
                    if let Some(t) = Ty::union_of(vec![w(&sfam[a]), w(&sfam[b]), w(&sfam[c])]) {
                        out.insert(t);
                    }
                }
                if let Some(t) = Ty::union_of(vec![w(&sfam[a]), w(&sfam[b])]) {
                    out.insert(t);
                }
            }
        }
    }
    out.into_iter().collect()
}

impl Ty {
    /// A different type of the same shape: atoms are permuted (int->string->float->bool->int), union
    /// member counts and struct field names are preserved. The crate's `Hash` for types is lossy in
    /// exactly these respects (a union hashes by its member count, a struct type by its field
    /// names), so a type and its twin are what a memo keyed by such hashes confuses.
    pub fn twin(&self) -> Ty {
        match self {
            Ty::Int => Ty::Str,
            Ty::Str => Ty::Float,
            Ty::Float => Ty::Bool,
            Ty::Bool => Ty::Int,
            Ty::Arr(e) => Ty::Arr(Box::new(e.twin())),
            Ty::Mut(e) => Ty::Mut(Box::new(e.twin())),
            Ty::Tup(ts) => Ty::Tup(ts.iter().map(Ty::twin).collect()),
            Ty::Struct(fs) => Ty::Struct(fs.iter().map(|(k, t)| (k.clone(), t.twin())).collect()),
            Ty::Fun(ps, r) => Ty::Fun(ps.iter().map(Ty::twin).collect(), Box::new(r.twin())),
            Ty::Union(ms) => Ty::union_of(ms.iter().map(Ty::twin).collect()).unwrap_or_else(|| self.clone()),
            other => other.clone(),
        }
    }

    pub fn has_union_or_struct(&self) -> bool {
        match self {
            Ty::Union(_) | Ty::Struct(_) => true,
            Ty::Arr(e) | Ty::Mut(e) => e.has_union_or_struct(),
            Ty::Tup(ts) => ts.iter().any(Ty::has_union_or_struct),
            Ty::Fun(ps, r) => ps.iter().any(Ty::has_union_or_struct) || r.has_union_or_struct(),
            _ => false,
        }
    }
}

/// A seeded depth-3 type (any constructor over depth <= 2 material).
pub fn sample_depth3(rng: &mut Rng, pool: &[Ty]) -> Ty {
    let pick = |rng: &mut Rng| pool[rng.below(pool.len())].clone();
    loop {
        let t = match rng.below(9) {
            0 => Ty::Arr(Box::new(pick(rng))),
            1 => Ty::Mut(Box::new(pick(rng))),
            2 => Ty::Tup(vec![pick(rng), pick(rng)]),
            3 => Ty::Tup(vec![pick(rng), pick(rng), pick(rng)]),
            4 => {
                let n = rng.below(4);
                Ty::Struct((0..n).map(|i| (FIELD_NAMES[i].to_string(), pick(rng))).collect())
            }
            5 => {
                let n = rng.below(3);
                Ty::Fun((0..n).map(|_| pick(rng)).collect(), Box::new(pick(rng)))
            }
            6 | 7 => {
                let n = 2 + rng.below(2);
                let ms: Vec<Ty> = (0..n)
                    .map(|_| pick(rng))
                    .flat_map(|x| match x {
                        Ty::Union(ms) => ms,
                        other => vec![other],
                    })
                    .collect();
                match Ty::union_of(ms) {
                    Some(t) => t,
                    None => continue,
                }
            }
            _ => Ty::Fun(vec![pick(rng)], Box::new(pick(rng))),
        };
        return t;
    }
}

/// A SimpleSL expression (literal) that evaluates to a value of type `t`; None if uninhabited or
/// not expressible as a simple literal. `which` picks the union member.
pub fn literal(t: &Ty, which: usize) -> Option<String> {
    Some(match t {
        Ty::Bool => "true".into(),
        Ty::Int => format!("{}", 1 + which as i64),
        Ty::Float => "1.5".into(),
        Ty::Str => "\"s\"".into(),
        Ty::Void => "()".into(),
        Ty::Any => "7".into(),
        Ty::Never => return None,
        Ty::Arr(e) => match literal(e, which) {
            Some(x) => format!("[{x}]"),
            None => "[]".into(),
        },
        Ty::Tup(ts) => {
            let xs: Option<Vec<String>> = ts.iter().map(|x| literal(x, which)).collect();
            format!("({})", xs?.join(", "))
        }
        Ty::Mut(e) => format!("mut {} {}", e.src(), literal(e, which)?),
        Ty::Struct(fs) => {
            let xs: Option<Vec<String>> =
                fs.iter().map(|(k, x)| literal(x, which).map(|v| format!("{k} := {v}"))).collect();
            format!("struct{{{}}}", xs?.join(", "))
        }
        Ty::Fun(ps, r) => {
            let params: Vec<String> = ps.iter().enumerate().map(|(i, p)| format!("p{i}: {}", p.src())).collect();
            let body = match r.as_ref() {
                Ty::Void => String::new(),
                r => format!("return {}", literal(r, which)?),
            };
            format!("({})->{} {{ {} }}", params.join(", "), r.src(), body)
        }
        Ty::Union(ms) => {
            let n = ms.len();
            for k in 0..n {
                if let Some(x) = literal(&ms[(which + k) % n], which) {
                    return Some(x);
                }
            }
            return None;
        }
    })
}
