//! Canonical renderings of the crate's public values, written by walking the public enums.
//! Nothing here calls the crate's `Hash` / `Eq` / `Display` for unions or structs: union members
//! and struct fields are sorted by their own canonical text, so two renderings are equal iff the
//! values are structurally equal, whatever order the hash maps happen to iterate in.
use simplesl::variable::{Type, Typed, Variable};
use simplesl::{Error, ExecError};
use std::sync::Arc;

pub fn ctype(t: &Type) -> String {
    match t {
        Type::Bool => "bool".into(),
        Type::Int => "int".into(),
        Type::Float => "float".into(),
        Type::String => "string".into(),
        Type::Void => "()".into(),
        Type::Any => "any".into(),
        Type::Never => "!".into(),
        Type::Function(f) => {
            let ps: Vec<String> = f.params.iter().map(ctype).collect();
            format!("({})->{}", ps.join(","), ctype_paren(&f.return_type))
        }
        Type::Array(e) => format!("[{}]", ctype(e)),
        Type::Tuple(ts) => {
            let ps: Vec<String> = ts.iter().map(ctype).collect();
            format!("({})", ps.join(","))
        }
        Type::Multi(m) => {
            let mut ms: Vec<String> = m.iter().map(ctype).collect();
            ms.sort();
            ms.join("|")
        }
        Type::Mut(e) => format!("mut {}", ctype_paren(e)),
        Type::Struct(s) => {
            let mut fs: Vec<String> = s.0.iter().map(|(k, v)| format!("{k}:{}", ctype(v))).collect();
            fs.sort();
            format!("struct{{{}}}", fs.join(","))
        }
    }
}

fn ctype_paren(t: &Type) -> String {
    if let Type::Multi(_) = t {
        format!("({})", ctype(t))
    } else {
        ctype(t)
    }
}

/// Canonical text that is also valid SimpleSL type syntax (used to rebuild a type from text).
pub fn ctype_src(t: &Type) -> String {
    // ctype already is grammar-conforming: unions are parenthesised in function results and mut
    // contents, and `[!]` / `!` are accepted by the grammar.
    ctype(t)
}

pub fn cvar(v: &Variable) -> String {
    let mut seen: Vec<*const ()> = Vec::new();
    cvar_in(v, &mut seen)
}

fn cvar_in(v: &Variable, seen: &mut Vec<*const ()>) -> String {
    match v {
        Variable::Bool(b) => format!("{b}"),
        Variable::Int(i) => format!("{i}"),
        Variable::Float(f) => {
            if f.is_nan() {
                "NaN".into()
            } else {
                format!("{f:?}f")
            }
        }
        Variable::String(s) => format!("{:?}", s.as_ref()),
        Variable::Void => "()".into(),
        Variable::Function(f) => format!("fn<{}>", ctype(&f.as_type())),
        Variable::Array(a) => {
            let es: Vec<String> = a.iter().map(|e| cvar_in(e, seen)).collect();
            format!("[{};{}]", ctype(a.element_type()), es.join(","))
        }
        Variable::Tuple(es) => {
            let es: Vec<String> = es.iter().map(|e| cvar_in(e, seen)).collect();
            format!("({})", es.join(","))
        }
        Variable::Struct(m) => {
            let mut fs: Vec<String> = m.iter().map(|(k, v)| format!("{k}={}", cvar_in(v, seen))).collect();
            fs.sort();
            format!("struct{{{}}}", fs.join(","))
        }
        Variable::Mut(m) => {
            let p = Arc::as_ptr(m) as *const ();
            if let Some(i) = seen.iter().position(|q| *q == p) {
                return format!("<cycle^{}>", seen.len() - i);
            }
            seen.push(p);
            let content = match m.variable.read() {
                Ok(g) => g.clone(),
                Err(p) => p.into_inner().clone(),
            };
            let s = format!("mut<{}>({})", ctype(&m.var_type), cvar_in(&content, seen));
            seen.pop();
            s
        }
    }
}

pub fn cexec_error(e: &ExecError) -> String {
    format!("ExecError::{e:?}")
}

/// Variant name plus canonical payload *types*; free-text payloads (instruction strings, names)
/// are kept only where they are copied from the program text, never where they are renderings of
/// values or types.
pub fn cerror(e: &Error) -> String {
    use Error::*;
    match e {
        BreakOutsideLoop => "BreakOutsideLoop".into(),
        ContinueOutsideLoop => "ContinueOutsideLoop".into(),
        VariableDoesntExist(n) => format!("VariableDoesntExist({n})"),
        WrongType(n, t) => format!("WrongType({n},{})", ctype(t)),
        WrongNumberOfArguments(_, n) => format!("WrongNumberOfArguments({n})"),
        IndexOutOfBounds => "IndexOutOfBounds".into(),
        TupleIndexTooBig(i, _, n) => format!("TupleIndexTooBig({i},{n})"),
        NegativeLength => "NegativeLength".into(),
        NegativeExponent => "NegativeExponent".into(),
        CannotBeParsed(_) => "CannotBeParsed".into(),
        CannotIndexInto(t) => format!("CannotIndexInto({})", ctype(t)),
        CannotTupleAccess(_, t) => format!("CannotTupleAccess({})", ctype(t)),
        CannotFieldAccess(_, t) => format!("CannotFieldAccess({})", ctype(t)),
        CannotIndexWith(_) => "CannotIndexWith".into(),
        CannotSlice(_, t) => format!("CannotSlice({})", ctype(t)),
        ZeroDivision => "ZeroDivision".into(),
        ZeroModulo => "ZeroModulo".into(),
        OverflowShift => "OverflowShift".into(),
        MatchNotCovered => "MatchNotCovered".into(),
        IO(e) => format!("IO({:?})", e.kind()),
        Parsing(_) => "Parsing".into(),
        IntegerOverflow(_) => "IntegerOverflow".into(),
        CannotUnescapeString(_) => "CannotUnescapeString".into(),
        CannotDo2(a, op, b) => format!("CannotDo2({},{op:?},{})", ctype(a), ctype(b)),
        WrongReturn { function_return_type, returned, .. } => {
            format!("WrongReturn({},{})", ctype(function_return_type), ctype(returned))
        }
        ReturnOutsideFunction => "ReturnOutsideFunction".into(),
        MissingReturn { return_type, .. } => format!("MissingReturn({})", ctype(return_type)),
        NoField { field_ident, struct_type, .. } => format!("NoField({field_ident},{})", ctype(struct_type)),
        WrongLengthType(_) => "WrongLengthType".into(),
        NotAFunction(_) => "NotAFunction".into(),
        WrongArgument { param, given_type, .. } => {
            format!("WrongArgument({}:{},{})", param.name, ctype(&param.var_type), ctype(given_type))
        }
        CannotDetermineParams(_) => "CannotDetermineParams".into(),
        CannotReduce(_) => "CannotReduce".into(),
        NotATuple(_) => "NotATuple".into(),
        CannotDetermineLength(_) => "CannotDetermineLength".into(),
        WrongLength { len, idents_len, .. } => format!("WrongLength({len},{idents_len})"),
        WrongCondition(_, t) => format!("WrongCondition({})", ctype(t)),
        IncorectUnaryOperatorOperand { op, expected, given, .. } => {
            format!("IncorectUnaryOperatorOperand({op:?},{},{})", ctype(expected), ctype(given))
        }
        WrongInitialization { declared, given_type, .. } => {
            format!("WrongInitialization({},{})", ctype(declared), ctype(given_type))
        }
        // a variant this harness does not know (added by a later version of the crate): its name
        #[allow(unreachable_patterns)]
        other => {
            let text = format!("{other:?}");
            text.split(|c: char| !(c.is_alphanumeric() || c == '_')).next().unwrap_or("").to_string()
        }
    }
}

/// Harness-side membership: does `v` belong to type `t`, judged recursively by contents
/// (not by the crate's `matches`)?
pub fn inhabits(v: &Variable, t: &Type) -> bool {
    let mut seen = Vec::new();
    inhabits_in(v, t, &mut seen)
}

fn inhabits_in(v: &Variable, t: &Type, seen: &mut Vec<*const ()>) -> bool {
    match t {
        Type::Any => return true,
        Type::Never => return false,
        Type::Multi(m) => return m.iter().any(|x| inhabits_in(v, x, seen)),
        _ => {}
    }
    match (v, t) {
        (Variable::Bool(_), Type::Bool)
        | (Variable::Int(_), Type::Int)
        | (Variable::Float(_), Type::Float)
        | (Variable::String(_), Type::String)
        | (Variable::Void, Type::Void) => true,
        (Variable::Array(a), Type::Array(e)) => {
            // the stored element type must itself be below the static one (later reads rely on it)
            sub(a.element_type(), e) && a.iter().all(|x| inhabits_in(x, a.element_type(), seen))
        }
        (Variable::Tuple(vs), Type::Tuple(ts)) => {
            vs.len() == ts.len() && vs.iter().zip(ts.iter()).all(|(x, y)| inhabits_in(x, y, seen))
        }
        (Variable::Struct(m), Type::Struct(s)) => s.0.iter().all(|(k, ft)| match m.get(k) {
            Some(x) => inhabits_in(x, ft, seen),
            None => false,
        }),
        (Variable::Function(f), Type::Function(_)) => sub(&f.as_type(), t),
        (Variable::Mut(m), Type::Mut(e)) => {
            if ctype(&m.var_type) != ctype(e) {
                return false;
            }
            let p = Arc::as_ptr(m) as *const ();
            if seen.contains(&p) {
                return true;
            }
            seen.push(p);
            let content = match m.variable.read() {
                Ok(g) => g.clone(),
                Err(p) => p.into_inner().clone(),
            };
            let r = inhabits_in(&content, &m.var_type, seen);
            seen.pop();
            r
        }
        _ => false,
    }
}

/// Harness-side structural subtyping (independent re-statement of the documented relation):
/// never <: everything <: any; unions by all/any; arrays, tuples, struct fields covariant (width
/// subtyping on structs); functions contravariant in parameters, covariant in result; mut invariant.
pub fn sub(a: &Type, b: &Type) -> bool {
    match (a, b) {
        (Type::Never, _) => true,
        (Type::Multi(m), _) => m.iter().all(|x| sub(x, b)),
        (_, Type::Any) => true,
        (_, Type::Multi(m)) => m.iter().any(|x| sub(a, x)),
        (Type::Function(f), Type::Function(g)) => {
            f.params.len() == g.params.len()
                && f.params.iter().zip(g.params.iter()).all(|(p, q)| sub(q, p))
                && sub(&f.return_type, &g.return_type)
        }
        (Type::Array(x), Type::Array(y)) => sub(x, y),
        (Type::Tuple(xs), Type::Tuple(ys)) => xs.len() == ys.len() && xs.iter().zip(ys.iter()).all(|(x, y)| sub(x, y)),
        (Type::Struct(s), Type::Struct(t)) => t.0.iter().all(|(k, ft)| s.0.get(k).is_some_and(|x| sub(x, ft))),
        (Type::Mut(x), Type::Mut(y)) => ctype(x) == ctype(y),
        (Type::Bool, Type::Bool)
        | (Type::Int, Type::Int)
        | (Type::Float, Type::Float)
        | (Type::String, Type::String)
        | (Type::Void, Type::Void)
        | (Type::Any, Type::Any) => true,
        _ => false,
    }
}
