//! `simctl check <property> <tier>`: spawn workers (one boot seed per process), aggregate, confirm
//! every candidate violation by replaying its explicit scenario in fresh processes, write the
//! replay file and the evidence file, print VIOLATION / KNOWN-FINDING lines, set the exit code.
use crate::hashsim;
use crate::proc;
use serde_json::{json, Value};
use std::collections::{BTreeMap, BTreeSet};
use std::time::Instant;

pub const DEFAULT_SEED: u64 = 20260924;

pub fn verif_seed() -> u64 {
    std::env::var("VERIF_SEED").ok().and_then(|s| s.parse::<u64>().ok()).unwrap_or(DEFAULT_SEED)
}

/// The verification directory: $VERIF_DIR, else the directory this binary was built in
/// (<verif>/sim/target/release/simctl), else /verif.
pub fn verif_dir() -> String {
    if let Ok(d) = std::env::var("VERIF_DIR") {
        return d;
    }
    if let Ok(exe) = std::env::current_exe() {
        if let Some(d) = exe.ancestors().nth(4) {
            if d.join("MANIFEST.json").exists() {
                return d.to_string_lossy().into_owned();
            }
        }
    }
    "/verif".to_string()
}

/// where evidence/ and replays/ are written (default: the verif dir itself)
pub fn out_dir() -> String {
    std::env::var("VERIF_OUT").unwrap_or_else(|_| verif_dir())
}

pub fn workers() -> usize {
    std::env::var("VERIF_WORKERS")
        .ok()
        .and_then(|s| s.parse().ok())
        .unwrap_or_else(|| std::thread::available_parallelism().map(|n| n.get()).unwrap_or(4).min(16))
}

/// True in the binary built with `--profile checked` (overflow checks and debug assertions on).
pub fn is_checked_build() -> bool {
    cfg!(debug_assertions)
}

/// The sibling binary of the other build profile (target/<profile>/simctl), if it was built.
pub fn sibling_binary(profile: &str) -> Option<std::path::PathBuf> {
    let exe = std::env::current_exe().ok()?;
    let p = exe.parent()?.parent()?.join(profile).join("simctl");
    p.exists().then_some(p)
}

/// Budget scaling for the second build's phase: VERIF_RUN_SCALE_PCT (default 100).
pub fn scaled(runs: u64) -> u64 {
    let pct = std::env::var("VERIF_RUN_SCALE_PCT").ok().and_then(|s| s.parse::<u64>().ok()).unwrap_or(100);
    (runs * pct / 100).max(if runs == 0 { 0 } else { 1 })
}

/// Build knob as a searched dimension (C13, C18): the same check is run a second time by the
/// binary built with overflow checks and debug assertions on - the build a user gets from a plain
/// `cargo build` / `cargo test` - on a reduced budget. Arithmetic that wraps silently in a release
/// build panics there. Violations the child confirmed (with its own binary) are taken over with
/// `"build": "checked"`; `simctl replay` hands such a file to the checked binary.
fn checked_phase(report: &mut Report) {
    if is_checked_build() || std::env::var("VERIF_PHASE").as_deref() == Ok("checked") || std::env::var("VERIF_NO_CHECKED").is_ok() {
        return;
    }
    if !matches!(report.property.as_str(), "C13" | "C18") {
        return;
    }
    let Some(bin) = sibling_binary("checked") else {
        report.coverage["overflow_checked_build"] = json!({"status": "not run: target/checked/simctl was not built"});
        return;
    };
    let tmp = std::env::temp_dir().join(format!("verif-checked-{}-{}", report.property, std::process::id()));
    let _ = std::fs::remove_dir_all(&tmp);
    let _ = std::fs::create_dir_all(&tmp);
    let t0 = Instant::now();
    let out = std::process::Command::new(&bin)
        .args(["check", &report.property, &report.tier])
        .env("VERIF_PHASE", "checked")
        .env("VERIF_OUT", &tmp)
        .env("VERIF_DIR", verif_dir())
        .env("VERIF_RUN_SCALE_PCT", "25")
        .output();
    let mut phase = json!({"binary": bin.to_string_lossy(), "build": "profile checked: release + overflow-checks + debug-assertions", "budget": "25% of the tier's runs"});
    match out {
        Err(e) => report.harness_errors.push(json!({"phase": "checked-build", "error": format!("spawn: {e}")})),
        Ok(o) => {
            let code = o.status.code();
            let ev: Value = std::fs::read_to_string(tmp.join("evidence").join(format!("{}.json", report.property)))
                .ok()
                .and_then(|t| serde_json::from_str(&t).ok())
                .unwrap_or(json!(null));
            phase["exit"] = json!(code);
            phase["evaluations"] = ev["coverage"]["evaluations"].clone();
            phase["violations"] = ev["violations"].clone();
            phase["wall_s"] = json!(t0.elapsed().as_secs_f64());
            if let Ok(rd) = std::fs::read_dir(tmp.join("replays")) {
                let mut files: Vec<_> = rd.flatten().map(|e| e.path()).collect();
                files.sort();
                for f in files {
                    if let Some(mut v) = std::fs::read_to_string(&f).ok().and_then(|t| serde_json::from_str::<Value>(&t).ok()) {
                        v["build"] = json!("checked");
                        report.violations.push(v);
                    }
                }
            }
            if code != Some(0) && code != Some(1) {
                let stdout = String::from_utf8_lossy(&o.stdout);
                let stderr = String::from_utf8_lossy(&o.stderr);
                report.harness_errors.push(json!({"phase": "checked-build", "exit": code, "stdout_tail": stdout.lines().rev().take(4).collect::<Vec<_>>(), "stderr_tail": stderr.lines().rev().take(6).collect::<Vec<_>>()}));
            }
        }
    }
    let _ = std::fs::remove_dir_all(&tmp);
    report.coverage["overflow_checked_build"] = phase;
}

pub struct Report {
    pub property: String,
    pub tier: String,
    pub seed: u64,
    pub level: &'static str,
    pub coverage: Value,
    pub assumptions: Vec<String>,
    /// confirmed violations: (class, subject id, replay file json)
    pub violations: Vec<Value>,
    pub harness_errors: Vec<Value>,
    pub wall_s: f64,
}

fn load_known() -> Vec<Value> {
    let path = format!("{}/known_findings.json", verif_dir());
    let Ok(text) = std::fs::read_to_string(path) else { return vec![] };
    let v: Value = serde_json::from_str(&text).unwrap_or(json!({}));
    v["findings"].as_array().cloned().unwrap_or_default()
}

/// A known finding matches a violation when property, class and the subject-id prefix agree.
fn known_match<'a>(known: &'a [Value], property: &str, v: &Value) -> Option<&'a Value> {
    known.iter().find(|k| {
        k["property"].as_str() == Some(property)
            && k["match"]["class"].as_str().map_or(true, |c| Some(c) == v["class"].as_str())
            && k["match"]["subject_id_prefix"]
                .as_str()
                .map_or(false, |p| v["subject_id"].as_str().unwrap_or("").starts_with(p))
    })
}

/// Writes evidence, replay files; prints the protocol lines; returns the process exit code.
/// Scratch directories of worker processes that no longer exist (killed by the watchdog's
/// circuit breaker, crashed on purpose during crash hunting ...) are removed at the end of a check.
fn sweep_stale_dirs() {
    let Ok(rd) = std::fs::read_dir(std::env::temp_dir()) else { return };
    for e in rd.flatten() {
        let name = e.file_name().to_string_lossy().into_owned();
        for prefix in ["verif-cwd-", "verif-real-", "verif-checked-"] {
            if let Some(rest) = name.strip_prefix(prefix) {
                let pid = rest.split('-').last().unwrap_or("");
                if !pid.is_empty() && pid.chars().all(|c| c.is_ascii_digit()) && !std::path::Path::new(&format!("/proc/{pid}")).exists() {
                    let _ = std::fs::remove_dir_all(e.path());
                }
            }
        }
    }
}

pub fn finish(mut report: Report) -> i32 {
    checked_phase(&mut report);
    sweep_stale_dirs();
    let dir = out_dir();
    let _ = std::fs::create_dir_all(format!("{dir}/evidence"));
    let _ = std::fs::create_dir_all(format!("{dir}/replays"));
    let known = load_known();
    let mut new_violations = 0;
    let mut known_hits = 0;
    let mut seen_known: BTreeSet<String> = BTreeSet::new();
    let mut lines = Vec::new();
    for (i, v) in report.violations.iter().enumerate() {
        if let Some(k) = known_match(&known, &report.property, v) {
            known_hits += 1;
            let id = k["id"].as_str().unwrap_or("?").to_string();
            if seen_known.insert(id.clone()) {
                lines.push(format!("KNOWN-FINDING: property={} {} ({})", report.property, k["what"].as_str().unwrap_or(""), id));
            }
            continue;
        }
        new_violations += 1;
        let path = format!("{dir}/replays/{}-{}-{}.json", report.property, report.seed, i);
        let mut file = v.clone();
        file["property"] = json!(report.property);
        file["verif_seed"] = json!(report.seed);
        file["replay_cmd"] = json!(format!("./check replay {path}"));
        let _ = std::fs::write(&path, serde_json::to_string_pretty(&file).unwrap());
        lines.push(format!("VIOLATION property={} replay={}", report.property, path));
        if new_violations <= 8 {
            eprintln!("  class={} subject={} :: {:.400}", v["class"], v["subject_id"], v["detail"].as_str().unwrap_or(""));
        }
    }
    let evidence = json!({
        "property_id": report.property,
        "tier": report.tier,
        "seed": report.seed,
        "level": report.level,
        "coverage": report.coverage,
        "assumptions": report.assumptions,
        "wall_s": report.wall_s,
        "violations": new_violations,
        "known_finding_hits": known_hits,
        "harness_errors": report.harness_errors.len(),
    });
    let epath = format!("{dir}/evidence/{}.json", report.property);
    std::fs::write(&epath, serde_json::to_string_pretty(&evidence).unwrap()).expect("write evidence");
    for l in &lines {
        println!("{l}");
    }
    if !report.harness_errors.is_empty() {
        if let Ok(dir) = std::env::var("VERIF_DEBUG_DIR") {
            let _ = std::fs::write(format!("{dir}/harness_errors_{}.json", report.property), serde_json::to_string(&report.harness_errors).unwrap_or_default());
        }
        for h in report.harness_errors.iter().take(5) {
            eprintln!("HARNESS-ERROR {}", h);
        }
        if new_violations == 0 {
            println!("HARNESS-ERROR property={} count={} (no verdict)", report.property, report.harness_errors.len());
            return 2;
        }
        // a violation that was minimised and reproduced in a fresh process stands on its own; the
        // harness errors beside it (typically: a run that no longer replays in its worker because
        // the defect keeps process-wide state) are reported, they do not void it
        println!("HARNESS-ERROR property={} count={} (beside {} confirmed violation(s))", report.property, report.harness_errors.len(), new_violations);
    }
    println!(
        "{} {} seed={} evaluations={} violations={} known={} wall={:.1}s evidence={}",
        report.property, report.tier, report.seed, evidence["coverage"]["evaluations"], new_violations, known_hits, report.wall_s, epath
    );
    if new_violations > 0 {
        1
    } else {
        0
    }
}

// ---------------------------------------------------------------------------------------------
// crash hunting: a worker that dies (stack overflow, abort) is a finding, not a harness error

/// Runs the jobs like `proc::call_many`. A job whose worker process was killed by a signal is run
/// again with VERIF_TRACE_RUNS, which makes it record the scenario it is executing; that scenario
/// is then executed alone (`single`); if the lone process dies too, a violation of class "crash"
/// with that scenario as its replay is appended to `crashes` (and the job's own result is replaced
/// by an empty report). Anything else stays a harness error.
fn call_many_hunting(sim: &str, jobs: Vec<(Vec<String>, Value)>, par: usize, crashes: &mut Vec<Value>) -> Vec<Result<Value, String>> {
    let copy = jobs.clone();
    let mut results = proc::call_many(jobs, par);
    for (i, r) in results.iter_mut().enumerate() {
        let Err(e) = r else { continue };
        if !e.starts_with(proc::CRASH) {
            continue;
        }
        if crashes.len() >= 3 {
            // three dead workers are already reduced to their scenarios: further ones add nothing
            *r = Ok(json!({"crashed_worker": true, "not_hunted": true}));
            continue;
        }
        let file = std::env::temp_dir().join(format!("verif-crash-{}-{}.json", std::process::id(), i));
        let argv: Vec<&str> = copy[i].0.iter().map(|s| s.as_str()).collect();
        let again = proc::call_env(&argv, &copy[i].1, &[("VERIF_TRACE_RUNS", file.to_string_lossy().to_string())]);
        let recorded = std::fs::read_to_string(&file).ok().and_then(|t| serde_json::from_str::<Value>(&t).ok());
        let _ = std::fs::remove_file(&file);
        let (Err(e2), Some(scenario)) = (again, recorded) else { continue };
        if !e2.starts_with(proc::CRASH) {
            continue;
        }
        let sim_name = scenario["sim"].as_str().map(|s| if s.starts_with("ossim") { "ossim" } else { s }).unwrap_or(sim).to_string();
        match proc::call(&["single", &sim_name], &scenario) {
            Err(e3) if e3.starts_with(proc::CRASH) => {
                let original = scenario.clone();
                let scenario = minimise_crash(&sim_name, scenario);
                crashes.push(json!({
                    "original_scenario": original,
                    "sim": sim_name, "class": "crash", "scenario": scenario,
                    "subject_id": format!("crash:{:.300}", scenario.to_string()),
                    "detail": format!("the process executing this scenario was killed ({:.700}); the scenario alone in a fresh process dies the same way", e3),
                }));
                *r = Ok(json!({"crashed_worker": true}));
            }
            _ => {}
        }
    }
    results
}

/// Delta debugging of a scenario that kills its process: every candidate runs in a process of its
/// own (`single`); kept while that process still dies. Operation lists of cellsim threads and
/// call lists of ossim scenarios are reduced; other scenario kinds are kept whole.
fn minimise_crash(sim: &str, scenario: Value) -> Value {
    let dies = |sc: &Value| matches!(proc::call(&["single", sim], sc), Err(e) if e.starts_with(proc::CRASH));
    let budget = std::cell::Cell::new(80u32);
    let mut best = scenario;
    let mut reduce = |best: &mut Value, get: &dyn Fn(&Value) -> Vec<Value>, set: &dyn Fn(&mut Value, Vec<Value>)| {
        let items = get(best);
        if items.len() < 2 {
            return;
        }
        let base = best.clone();
        let kept = crate::ddmin::ddmin(&items, |cand| {
            if budget.get() == 0 {
                return false;
            }
            budget.set(budget.get() - 1);
            let mut sc = base.clone();
            set(&mut sc, cand.to_vec());
            dies(&sc)
        });
        if kept.len() < items.len() {
            set(best, kept);
        }
    };
    match (sim, best["sim"].as_str().unwrap_or("")) {
        ("cellsim", _) => {
            let n = best["threads"].as_array().map_or(0, |a| a.len());
            for t in 0..n {
                reduce(&mut best, &|sc| sc["threads"][t].as_array().cloned().unwrap_or_default(), &|sc, ops| sc["threads"][t] = Value::Array(ops));
            }
        }
        ("ossim", "ossim") => {
            reduce(&mut best, &|sc| sc["calls"].as_array().cloned().unwrap_or_default(), &|sc, calls| sc["calls"] = Value::Array(calls));
        }
        _ => {}
    }
    best
}

/// A "crash" finding is confirmed when the lone process dies again.
fn confirm_crash(sim: &str, v: &Value) -> Option<Result<bool, String>> {
    if v["class"].as_str() != Some("crash") {
        return None;
    }
    Some(match proc::call(&["single", sim], &v["scenario"]) {
        Err(e) if e.starts_with(proc::CRASH) => Ok(true),
        Err(e) => Err(e),
        Ok(_) => Ok(false),
    })
}

// ---------------------------------------------------------------------------------------------
// hang hunting: a run the watchdog had to abandon is a finding if it hangs again, alone

/// A scenario "hangs" when a fresh process executing it alone reports that its watchdog had to
/// abandon the run (25 s; on the unchanged tree no scenario takes a second).
fn hangs_alone(sim: &str, scenario: &Value) -> bool {
    match proc::call(&["single", sim], scenario) {
        Ok(out) => out["harness_error"].as_str().is_some_and(|h| h.contains(crate::run::WATCHDOG)),
        Err(_) => false,
    }
}

/// Code under test that spins or blocks on something the simulated scheduler does not own (a
/// flag in an atomic, a std lock of its own) never reaches a scheduling point again: no task is
/// "blocked", the run simply does not end. Workers abandon such a run after 25 s and report it as
/// a harness error. Here every abandoned scenario (at most two per check) is executed alone in a
/// fresh process, twice; if it is abandoned both times it is reported as a violation of class
/// `hang` with that scenario as its replay, and the harness errors it caused are dropped.
fn hunt_hangs(sim: &str, harness_errors: &mut Vec<Value>, confirmed: &mut Vec<Value>) {
    let abandoned: Vec<Value> = harness_errors
        .iter()
        .filter(|h| h["what"].as_str().is_some_and(|w| w.contains(crate::run::WATCHDOG)) && h["scenario"].is_object())
        .map(|h| h["scenario"].clone())
        .collect();
    let mut found = false;
    for sc in abandoned.into_iter().take(2) {
        if hangs_alone(sim, &sc) && hangs_alone(sim, &sc) {
            found = true;
            confirmed.push(json!({
                "sim": sim, "class": "hang", "scenario": sc,
                "subject_id": format!("hang:{:.300}", sc.to_string()),
                "detail": format!("the run did not finish: no task is blocked on a lock the scheduler owns, yet the execution never reaches its end (spinning or blocking on state the scheduler does not see); executed alone in a fresh process it was abandoned after {} s, twice", crate::run::RUN_TIMEOUT_S),
            }));
        }
    }
    if found {
        harness_errors.retain(|h| {
            let w = h["what"].as_str().unwrap_or("");
            !(w.contains(crate::run::WATCHDOG) || w.contains("abandoned runs"))
        });
    }
}

/// A "hang" finding is confirmed when the lone process is abandoned by its watchdog again.
fn confirm_hang(sim: &str, v: &Value) -> Option<Result<bool, String>> {
    if v["class"].as_str() != Some("hang") {
        return None;
    }
    Some(Ok(hangs_alone(sim, &v["scenario"])))
}

// ---------------------------------------------------------------------------------------------
// hashsim-based properties (C05, C15)

/// Re-runs the explicit scenarios of a candidate in fresh processes; true iff it fails the same way.
pub fn confirm_hashsim(v: &Value) -> Result<bool, String> {
    if v["class"].as_str() == Some("history-dependent") {
        let Some(h) = v.get("history") else { return Ok(false) };
        let with = proc::call_env(
            &["worker", "hashsim"],
            &h["worker_input"],
            &[("VERIF_STOP_AT", h["stop_at"].as_str().unwrap_or("").to_string()), ("VERIF_KEEP", h["keep"].as_str().unwrap_or("").to_string())],
        )?;
        let alone = proc::call(&["single", "hashsim"], &v["runs"][0])?;
        return Ok(with["canon"] != alone["canon"]);
    }
    let runs = v["runs"].as_array().ok_or("no runs")?;
    let mut outs = Vec::new();
    for r in runs {
        outs.push(proc::call(&["single", "hashsim"], r)?);
    }
    let class = v["class"].as_str().unwrap_or("");
    if class == "seed-dependent" {
        Ok(outs.len() == 2 && outs[0]["canon"] != outs[1]["canon"])
    } else {
        Ok(outs[0]["direct"].as_array().map_or(false, |d| d.iter().any(|x| x[0].as_str() == Some(class))))
    }
}

/// Shrinks the program of a seed-dependent / direct candidate: ddmin over its top-level statements
/// (split with the grammar's own `input` rule), keeping a candidate only while the same class of
/// difference persists between the same two key seeds in fresh processes.
fn minimise_program(c: &Value) -> Value {
    let class = c["class"].as_str().unwrap_or("").to_string();
    if c["runs"][0]["subject"]["kind"].as_str() != Some("program") {
        return c.clone();
    }
    let text = c["runs"][0]["subject"]["text"].as_str().unwrap_or("").to_string();
    let Some(stmts) = crate::replsim::split_statements(&text) else { return c.clone() };
    if stmts.len() < 2 {
        return c.clone();
    }
    let with_text = |t: &str| {
        let mut v = c.clone();
        if let Some(runs) = v["runs"].as_array_mut() {
            for r in runs.iter_mut() {
                r["subject"]["text"] = json!(t);
            }
        }
        v
    };
    let mut trials = 0;
    let min = crate::ddmin::ddmin(&stmts, |cand| {
        trials += 1;
        trials <= 400 && confirm_hashsim(&with_text(&cand.join(";\n"))).unwrap_or(false)
    });
    let mut out = with_text(&min.join(";\n"));
    out["original_program"] = json!(text);
    out["minimise_trials"] = json!(trials);
    out["detail"] = json!(format!("{} [program minimised from {} to {} statements: {}]", c["detail"].as_str().unwrap_or(""), stmts.len(), min.len(), min.join("; ")));
    let _ = class;
    out
}

/// A candidate whose two outcomes agree when each run is executed alone in a fresh process: the
/// difference must come from what the worker process had executed before. Finds which of the two
/// in-batch outcomes deviates from the isolated one, re-creates the worker's run history up to it
/// and minimises that history (ddmin; every trial is a fresh process).
fn history_search(c: &Value, property: &str, tier: &str, seed: u64, n_subjects: usize, k: usize) -> Result<Option<Value>, String> {
    let at = &c["at"];
    if at.is_null() {
        return Ok(None);
    }
    let boot = c["runs"][0]["boot_seed"].as_u64().ok_or("no boot seed")?;
    let idx = at["idx"].as_u64().unwrap() as usize;
    let (shard, shards) = (at["shard"].as_u64().unwrap() as usize, at["shards"].as_u64().unwrap() as usize);
    let plan = hashsim::plan(property, tier, seed);
    for which in [1usize, 0] {
        let kk = at["k"][which].as_u64().unwrap() as usize;
        let repeat = at["repeat"][which].as_bool().unwrap_or(false);
        let in_batch = at["canons"][which].clone();
        let alone_sc = json!({"sim": "hashsim", "boot_seed": boot, "subject": plan.subjects[idx].to_json(), "key_seed": hashsim::key_seed(seed, idx, kk), "prefix": hashsim::prefix_for(&plan, seed, idx, kk)});
        let alone = proc::call(&["single", "hashsim"], &alone_sc)?;
        // (in-batch outcomes are reported cut to 400 characters)
        let cut = |v: &Value| v.as_str().map(|s| s.chars().take(400).collect::<String>());
        if cut(&alone["canon"]) == cut(&in_batch) {
            continue;
        }
        let _ = (n_subjects, k);
        // the worker itself, restricted to a set of earlier subjects and stopped at the target run,
        // is the replay: same code path, hence the same allocation and hashing history
        let history: Vec<usize> = (0..idx).filter(|i| i % shards == shard).collect();
        let worker_input = c["worker_input"].clone();
        if worker_input.is_null() {
            continue;
        }
        let stop = format!("{idx},{kk},{}", repeat as u8);
        let keep_str = |keep: &[usize]| keep.iter().map(|i| i.to_string()).collect::<Vec<_>>().join(",");
        let mk = |keep: &[usize]| json!({"sim": "hashsim", "mode": "history", "worker_input": worker_input, "stop_at": stop, "keep": keep_str(keep)});
        let fails = |keep: &[usize]| {
            proc::call_env(&["worker", "hashsim"], &worker_input, &[("VERIF_STOP_AT", stop.clone()), ("VERIF_KEEP", keep_str(keep))])
                .map(|o| !o["canon"].is_null() && o["canon"] != alone["canon"])
                .unwrap_or(false)
        };
        if !fails(&history) {
            continue;
        }
        let min = crate::ddmin::ddmin(&history, |h| fails(h));
        let min: Vec<usize> = if fails(&[]) { vec![] } else { min };
        let mut out = c.clone();
        out["class"] = json!("history-dependent");
        out["history"] = mk(&min);
        out["runs"] = json!([alone_sc]);
        out["history_programs"] = json!(min.iter().map(|i| plan.subjects[*i].to_json()).collect::<Vec<_>>());
        out["detail"] = json!(format!(
            "after the {} earlier program(s) listed in history_programs ran in the same process the outcome is {:.300} but alone in a fresh process it is {:.300}",
            min.len(),
            in_batch.as_str().unwrap_or(""),
            alone["canon"].as_str().unwrap_or("")
        ));
        return Ok(Some(out));
    }
    Ok(None)
}

pub fn check_hashsim(property: &str, tier: &str) -> i32 {
    let t0 = Instant::now();
    let seed = verif_seed();
    let thorough = tier == "thorough";
    let par = workers();
    // lazily initialised process-wide values (e.g. the ACCEPTED_* union types) take their hash
    // order from the boot seed: several processes per run
    let boots = if thorough { 8 } else { 4 };
    let shards = (par / boots).max(1);
    let mut jobs = Vec::new();
    for b in 0..boots {
        for s in 0..shards {
            jobs.push((
                vec!["worker".to_string(), "hashsim".to_string()],
                json!({"property": property, "tier": tier, "seed": seed, "boot_seed": hashsim::boot_seed_n(seed, b), "shard": s, "shards": shards}),
            ));
        }
    }
    let mut crashes: Vec<Value> = Vec::new();
    let results = call_many_hunting("hashsim", jobs, par, &mut crashes);
    let mut harness_errors = Vec::new();
    let mut candidates: Vec<Value> = Vec::new();
    let mut runs = 0u64;
    let mut events = 0u64;
    let mut prefix_runs = 0u64;
    let mut k = 0;
    let mut n_subjects = 0;
    // subject id -> (boot seed -> (canon digest, canon, first key seed))
    let mut by_subject: BTreeMap<String, Vec<(u64, String, String, u64)>> = BTreeMap::new();
    let mut varied = 0u64; // subjects whose raw rendering differed between seeds
    let mut distinct_raw_pairs = 0u64;
    let mut rt_types = 0u64;
    let mut rt_full = 0u64;
    let mut below_attainable: Vec<String> = Vec::new();
    let mut printed_by_subject: BTreeMap<String, (u64, u64)> = BTreeMap::new();
    let mut worker_input_of: BTreeMap<(String, u64), Value> = BTreeMap::new();
    for r in results {
        match r {
            Err(e) => harness_errors.push(json!({"what": "worker failed", "error": e})),
            Ok(v) => {
                runs += v["runs"].as_u64().unwrap_or(0);
                events += v["events"].as_u64().unwrap_or(0);
                prefix_runs += v["prefix_runs"].as_u64().unwrap_or(0);
                k = v["k"].as_u64().unwrap_or(0);
                n_subjects = v["n_subjects_total"].as_u64().unwrap_or(0);
                let boot = v["boot_seed"].as_u64().unwrap();
                for h in v["harness_errors"].as_array().cloned().unwrap_or_default() {
                    harness_errors.push(h);
                }
                for mut c in v["violations"].as_array().cloned().unwrap_or_default() {
                    c["worker_input"] = v["input"].clone();
                    candidates.push(c);
                }
                for s in v["subjects"].as_array().cloned().unwrap_or_default() {
                    let id = s["id"].as_str().unwrap().to_string();
                    let dr = s["distinct_raw"].as_u64().unwrap_or(1);
                    distinct_raw_pairs += dr;
                    let e = printed_by_subject.entry(id.clone()).or_insert((0, 0));
                    e.0 = e.0.max(s["distinct_printed"].as_u64().unwrap_or(0));
                    e.1 = s["orders"].as_u64().unwrap_or(0);
                    worker_input_of.insert((id.clone(), boot), v["input"].clone());
                    by_subject.entry(id).or_default().push((
                        boot,
                        s["canon_digest"].as_str().unwrap().to_string(),
                        s["canon"].as_str().unwrap().to_string(),
                        s["first_key_seed"].as_u64().unwrap(),
                    ));
                    if dr > 1 {
                        varied += 1;
                    }
                }
            }
        }
    }
    // cross-process comparison (boot seeds): canonical record must not depend on the process
    let plan = hashsim::plan(property, tier, seed);
    let subj_by_id: BTreeMap<String, &hashsim::Subject> = plan.subjects.iter().map(|s| (s.id(), s)).collect();
    for (id, recs) in &by_subject {
        if let Some(other) = recs.iter().find(|r| r.1 != recs[0].1) {
            if let Some(subject) = subj_by_id.get(id) {
                candidates.push(json!({
                    "class": "seed-dependent",
                    "detail": format!("boot {:#x}: {:.300}  |  boot {:#x}: {:.300}", recs[0].0, recs[0].2, other.0, other.2),
                    "subject_id": id,
                    "runs": [
                        {"sim": "hashsim", "boot_seed": recs[0].0, "subject": subject.to_json(), "key_seed": recs[0].3, "prefix": []},
                        {"sim": "hashsim", "boot_seed": other.0, "subject": subject.to_json(), "key_seed": other.3, "prefix": []},
                    ],
                }));
            }
        }
    }
    // another process, and one that has done nothing before: every program once more, alone, in a
    // process without the workers' warm-up; the canonical outcome must be the one the workers saw
    if property == "C05" {
        let mut jobs = Vec::new();
        let mut meta = Vec::new();
        for (id, recs) in &by_subject {
            let Some(subject) = subj_by_id.get(id) else { continue };
            let sj = subject.to_json();
            if sj["kind"].as_str() != Some("program") || recs.iter().any(|r| r.1 != recs[0].1) {
                continue;
            }
            let cold = json!({"sim": "hashsim", "boot_seed": recs[0].0, "subject": sj, "key_seed": recs[0].3, "prefix": [], "cold": true});
            jobs.push((vec!["single".to_string(), "hashsim".to_string()], cold.clone()));
            meta.push((id.clone(), recs[0].clone(), cold));
        }
        let n_cold = jobs.len();
        for ((id, rec, cold), out) in meta.into_iter().zip(proc::call_many(jobs, par)) {
            match out {
                Ok(o) => {
                    runs += 1;
                    // (workers report the first 400 characters of a canonical outcome and the digest
                    // of the whole: the comparison is by digest)
                    if format!("{:016x}", crate::prng::digest(o["canon"].as_str().unwrap_or(""))) != rec.1 {
                        let mut warm = cold.clone();
                        warm["cold"] = json!(false);
                        candidates.push(json!({
                            "class": "seed-dependent",
                            "detail": format!("alone in a process that did nothing before: {:.300}  |  in a process that had run the warm-up programs: {:.300}", o["canon"].as_str().unwrap_or(""), rec.2),
                            "subject_id": id,
                            "origin": "cold-comparison",
                            "runs": [cold, warm],
                            "worker_input": worker_input_of.get(&(id.clone(), rec.0)).cloned().unwrap_or(Value::Null),
                            "worker_canon": rec.2,
                        }));
                    }
                }
                Err(e) => harness_errors.push(json!({"what": "cold single run failed", "error": e})),
            }
        }
        let _ = n_cold;
    }
    for (id, (seen, orders)) in &printed_by_subject {
        if *orders > 0 {
            rt_types += 1;
            let attainable = (*orders).min(k * 2);
            if *seen >= attainable.min(2) {
                rt_full += 1;
            }
            if *orders >= 2 && *seen < 2 && below_attainable.len() < 20 {
                below_attainable.push(id.clone());
            }
        }
    }
    // one candidate per subject, confirmed by fresh-process replay
    // worker processes that died: each already reduced to the one scenario that kills a lone process
    let mut confirmed: Vec<Value> = crashes;
    let mut seen_subjects = BTreeSet::new();
    let mut unconfirmed = 0;
    let mut history_searches = 0;
    let mut skipped_history = 0;
    let mut minimised_programs = 0;
    let mut cold_unreproduced = 0u64;
    for c in candidates {
        let sid = format!("{}|{}", c["subject_id"].as_str().unwrap_or(""), c["class"].as_str().unwrap_or(""));
        if !seen_subjects.insert(sid) {
            continue;
        }
        if confirmed.len() >= 40 || (c["class"].as_str() == Some("history-dependent") && confirmed.iter().filter(|x: &&Value| x["class"].as_str() == Some("history-dependent")).count() >= 2) {
            continue;
        }
        let plain = if c["class"].as_str() == Some("history-dependent") { Ok(false) } else { confirm_hashsim(&c) };
        match plain {
            Ok(true) => {
                let mut c = if minimised_programs < 6 {
                    minimised_programs += 1;
                    minimise_program(&c)
                } else {
                    c
                };
                c["sim"] = json!("hashsim");
                confirmed.push(c);
            }
            Ok(false) if c["origin"].as_str() == Some("cold-comparison") => {
                // the worker's outcome differs from a cold process, but a warmed-up process alone
                // agrees with the cold one: the worker's own history (earlier subjects of its
                // shard) is the cause. Replay that history and reduce it.
                cold_unreproduced += 1;
                let wi = &c["worker_input"];
                let idx = plan.subjects.iter().position(|s| Some(s.id()) == c["subject_id"].as_str().map(|x| x.to_string()));
                if history_searches >= 3 || wi.is_null() || idx.is_none() {
                    continue;
                }
                history_searches += 1;
                let mut hc = c.clone();
                hc["at"] = json!({"idx": idx.unwrap(), "k": [0, 0], "repeat": [false, false], "shard": wi["shard"], "shards": wi["shards"], "canons": [c["worker_canon"], c["worker_canon"]]});
                let mut warm = c["runs"][1].clone();
                warm["cold"] = json!(false);
                hc["runs"] = json!([warm]);
                let found = history_search(&hc, property, tier, seed, n_subjects as usize, k as usize);
                if std::env::var_os("VERIF_DEBUG").is_some() {
                    eprintln!("[debug] cold difference on {}: history search -> {:?}", c["subject_id"], found.as_ref().map(|o| o.as_ref().map(|h| h["detail"].clone())));
                }
                if let Ok(Some(mut h)) = found {
                    h["sim"] = json!("hashsim");
                    let ok = confirm_hashsim(&h);
                    if std::env::var_os("VERIF_DEBUG").is_some() {
                        eprintln!("[debug]   confirmation -> {ok:?}");
                    }
                    if let Ok(true) = ok {
                        confirmed.push(h);
                    } else {
                        harness_errors.push(json!({"what": "a cold-process difference was reduced to a history that does not reproduce", "subject": c["subject_id"]}));
                    }
                } else {
                    // never silently: an outcome that differs between a worker and a cold process
                    // and that neither hash keys nor the worker's history explain is no verdict
                    harness_errors.push(json!({"what": "cold-process difference that the worker's history does not explain", "subject": c["subject_id"], "detail": c["detail"]}));
                }
            }
            Ok(false) => {
                // not reproducible from hash keys alone: look for the cause in the process history
                // (a handful of searches is enough to report the defect; each costs many processes)
                if history_searches >= 3 {
                    skipped_history += 1;
                    continue;
                }
                history_searches += 1;
                match history_search(&c, property, tier, seed, n_subjects as usize, k as usize) {
                    Ok(Some(mut h)) => {
                        h["sim"] = json!("hashsim");
                        match confirm_hashsim(&h) {
                            Ok(true) => confirmed.push(h),
                            _ => {
                                unconfirmed += 1;
                                harness_errors.push(json!({"what": "history candidate did not reproduce", "candidate": h}));
                            }
                        }
                    }
                    Ok(None) => {
                        unconfirmed += 1;
                        harness_errors.push(json!({"what": "candidate did not reproduce in fresh processes", "candidate": c}));
                    }
                    Err(e) => harness_errors.push(json!({"what": "history search failed", "error": e})),
                }
            }
            Err(e) => harness_errors.push(json!({"what": "replay failed", "error": e})),
        }
    }
    let wall = t0.elapsed().as_secs_f64();
    let samples: Vec<Value> = plan
        .subjects
        .iter()
        .step_by((plan.subjects.len() / 6).max(1))
        .take(6)
        .map(|s| {
            let id = s.id();
            json!({"subject": s.to_json(), "canonical_outcome": by_subject.get(&id).map(|r| r[0].2.clone())})
        })
        .collect();
    let (rule, explanation) = match property {
        "C05" => (
            "Subjects = hand-written hash-sensitive programs + repo examples/README/docs blocks + seeded templates over the type universe + type-operation scripts; every subject is executed under K hash-key seeds (fresh OS thread each, keys served by the interposed getrandom) in each of B processes booted under different boot seeds, one run in four after 1-3 unrelated programs on the same thread. distinct_nontrivial = subjects whose raw (crate-rendered) record differed between at least two seeds, i.e. subjects on which a different hash order was demonstrably exercised.",
            "canonical outcome (acceptance, static type, value/error, stdout) compared across all seeds, boots and prefixes; raw outcome compared for equal seeds",
        ),
        _ => (
            "Subjects = every atom, depth-1 and depth-2 type of the enumerated universe + seeded depth-3 types (round trip through to_string/from_str, built by constructors and by parsing) + `it ? U` programs for universe types; each under K hash-key seeds (= print orders) in B processes. distinct_nontrivial = round-trip subjects with more than one attainable print order for which at least two different printed texts were observed.",
            "from_str(to_string(T)) compared with T by the harness's structural equality and by the crate's == and matches, for every print order reached",
        ),
    };
    let coverage = json!({
        "evaluations": runs,
        "distinct_nontrivial": if property == "C05" { varied } else { printed_by_subject.values().filter(|(s, o)| *o >= 2 && *s >= 2).count() as u64 },
        "rule": rule,
        "explanation": explanation,
        "samples": samples,
        "subjects": n_subjects,
        "seeds_per_subject": k,
        "boot_seeds": boots,
        "worker_processes": boots * shards,
        "runs_after_unrelated_work": prefix_runs,
        "cold_process_differences_explained_by_worker_history": cold_unreproduced,
        "simulated_time_events": events,
        "runs_per_hour": (runs as f64 / wall * 3600.0) as u64,
        "seeds_per_hour": (runs as f64 / wall * 3600.0) as u64,
        "distinct_subject_raw_pairs": distinct_raw_pairs,
        "fault_kinds_fired": {"hash_key_reseed": runs, "boot_reseed": boots, "unrelated_work_prefix": prefix_runs},
        "roundtrip_types": rt_types,
        "roundtrip_types_two_or_more_orders_seen": rt_full,
        "types_with_single_observed_order_despite_several_attainable": below_attainable,
        "unconfirmed_candidates": unconfirmed,
        "history_searches": history_searches,
        "candidates_not_searched_after_three_history_searches": skipped_history,
        "real_vs_stub": {"real": ["pest grammar+parser", "checker", "recreate/folding", "exec", "Type/MultiType/StructType Hash+Eq", "std HashMap/HashSet SipHash"], "stub": ["getrandom (hash keys) served by the simulator", "global allocator: deterministic size-class allocator at a fixed address (address reuse is a function of the alloc/free sequence)", "stdout captured", "std::fs -> in-memory (unused by these subjects)"]},
        "exhaustive": false,
    });
    finish(Report {
        property: property.to_string(),
        tier: tier.to_string(),
        seed,
        level: "exploration",
        coverage,
        assumptions: vec![
            "std obtains HashMap keys only through getrandom once per OS thread (checked at start-up: one call per fresh thread)".into(),
            "every lazy_static of the crate is initialised by the boot warm-up (checked by `check selftest`: sampled runs re-executed alone in a fresh process give byte-identical raw records)".into(),
            "a difference that needs a specific order of an n-member union is seen with probability 1/n! per seed".into(),
        ],
        violations: confirmed,
        harness_errors,
        wall_s: wall,
    })
}

/// `simctl replay <file>`
pub fn replay(path: &str) -> i32 {
    let text = match std::fs::read_to_string(path) {
        Ok(t) => t,
        Err(e) => {
            eprintln!("cannot read {path}: {e}");
            return 2;
        }
    };
    let v: Value = serde_json::from_str(&text).expect("replay json");
    if v["build"].as_str() == Some("checked") && !is_checked_build() {
        // found by the overflow-checked build: replayed by that binary
        let Some(bin) = sibling_binary("checked") else {
            eprintln!("replay error: {path} needs target/checked/simctl (cargo build --profile checked)");
            return 2;
        };
        return match std::process::Command::new(bin).args(["replay", path]).status() {
            Ok(st) => st.code().unwrap_or(2),
            Err(e) => {
                eprintln!("replay error: {e}");
                2
            }
        };
    }
    let sim = v["sim"].as_str().unwrap_or("hashsim");
    let r = match sim {
        "hashsim" => confirm_hashsim(&v),
        other => crate::replay_other(other, &v),
    };
    match r {
        Ok(true) => {
            println!("VIOLATION property={} replay={}", v["property"].as_str().unwrap_or("?"), path);
            println!("reproduced: class={} {}", v["class"], v["detail"]);
            1
        }
        Ok(false) => {
            println!("not reproduced on this tree: {path}");
            0
        }
        Err(e) => {
            eprintln!("replay error: {e}");
            2
        }
    }
}

// ---------------------------------------------------------------------------------------------
// cellsim-based properties (C13, C16)

fn confirm_cellsim(v: &Value) -> Result<bool, String> {
    let out = proc::call(&["single", "cellsim"], &v["scenario"])?;
    let class = v["class"].as_str().unwrap_or("");
    Ok(out["violation"].as_array().map_or(false, |a| a[0].as_str() == Some(class)))
}

pub fn check_cellsim(property: &str, tier: &str) -> i32 {
    let t0 = Instant::now();
    let seed = verif_seed();
    let thorough = tier == "thorough";
    let par = workers();
    let boots = if thorough { 8 } else { 2 };
    let shards = (par / boots).max(1);
    let runs: u64 = match (property, thorough) {
        ("C13", false) => 24_000,
        ("C13", true) => 1_200_000,
        ("C16", false) => 120_000,
        (_, _) => 2_400_000,
    };
    let runs = scaled(runs);
    let mut jobs = Vec::new();
    let nw = (boots * shards) as u64;
    for b in 0..boots {
        for s in 0..shards {
            let w = (b * shards + s) as u64;
            jobs.push((
                vec!["worker".to_string(), "cellsim".to_string()],
                json!({"property": property, "tier": tier, "seed": seed, "boot_seed": hashsim::boot_seed_n(seed, b), "shard": w, "shards": nw, "runs": runs}),
            ));
        }
    }
    let mut crashes: Vec<Value> = Vec::new();
    let results = call_many_hunting("cellsim", jobs, par, &mut crashes);
    let mut harness_errors = Vec::new();
    let mut candidates: Vec<Value> = Vec::new();
    let mut n = 0u64;
    let mut events = 0u64;
    let mut lock_events = 0u64;
    let mut switches = 0u64;
    let mut sched: BTreeSet<String> = BTreeSet::new();
    let mut hist: BTreeSet<String> = BTreeSet::new();
    let mut ops: BTreeMap<String, u64> = BTreeMap::new();
    let mut policies: BTreeMap<String, u64> = BTreeMap::new();
    let mut modes: BTreeMap<String, u64> = BTreeMap::new();
    let mut probes: BTreeMap<String, u64> = BTreeMap::new();
    let mut rejected: BTreeMap<String, u64> = BTreeMap::new();
    let mut failing = 0u64;
    let mut overlapped = 0u64;
    let mut det = 0u64;
    let mut samples = Vec::new();
    let add = |m: &mut BTreeMap<String, u64>, v: &Value| {
        if let Some(o) = v.as_object() {
            for (k, c) in o {
                *m.entry(k.clone()).or_default() += c.as_u64().unwrap_or(0);
            }
        }
    };
    for r in results {
        match r {
            Err(e) => harness_errors.push(json!({"what": "worker failed", "error": e})),
            Ok(v) => {
                n += v["runs"].as_u64().unwrap_or(0);
                events += v["events"].as_u64().unwrap_or(0);
                lock_events += v["lock_events"].as_u64().unwrap_or(0);
                switches += v["context_switches"].as_u64().unwrap_or(0);
                failing += v["failing_ops_fired"].as_u64().unwrap_or(0);
                overlapped += v["overlapped_rmw_pairs"].as_u64().unwrap_or(0);
                det += v["determinism_checked"].as_u64().unwrap_or(0);
                for d in v["sched_digests"].as_array().cloned().unwrap_or_default() {
                    sched.insert(d.as_str().unwrap().to_string());
                }
                for d in v["hist_digests"].as_array().cloned().unwrap_or_default() {
                    hist.insert(d.as_str().unwrap().to_string());
                }
                add(&mut ops, &v["ops"]);
                add(&mut policies, &v["policies"]);
                add(&mut modes, &v["modes"]);
                add(&mut probes, &v["probes"]);
                add(&mut rejected, &v["rejected"]);
                for h in v["harness_errors"].as_array().cloned().unwrap_or_default() {
                    harness_errors.push(h);
                }
                for c in v["violations"].as_array().cloned().unwrap_or_default() {
                    candidates.push(c);
                }
                if samples.len() < 4 {
                    for s in v["samples"].as_array().cloned().unwrap_or_default().into_iter().take(1) {
                        samples.push(s);
                    }
                }
            }
        }
    }
    // minimise + confirm, at most a handful per class
    // worker processes that died: each already reduced to the one scenario that kills a lone process
    let mut confirmed: Vec<Value> = crashes;
    let mut per_class: BTreeMap<String, usize> = BTreeMap::new();
    let mut attempts: BTreeMap<String, usize> = BTreeMap::new();
    let mut unconfirmed = 0;
    for c in candidates {
        let class = c["class"].as_str().unwrap_or("").to_string();
        // up to 3 confirmed findings per class; a candidate that does not reproduce alone (the
        // worker was in a state only its history explains) does not use up a slot, but no more
        // than 16 candidates of a class are tried
        // (and no more than 2 per (class, program): after a defect has poisoned process-wide state,
        // every later run of a worker fails in the same unreproducible way)
        let sig = format!("{class}|{}|{:.60}", c["scenario"]["mode"].as_str().unwrap_or(""), c["scenario"]["prog"].as_str().unwrap_or(""));
        let same = attempts.entry(sig).or_default();
        if *same >= 2 {
            continue;
        }
        *same += 1;
        let tried = attempts.entry(class.clone()).or_default();
        if per_class.get(&class).copied().unwrap_or(0) >= 3 || *tried >= 24 {
            continue;
        }
        *tried += 1;
        let mut c = c;
        c["sim"] = json!("cellsim");
        match proc::call(&["minimise", "cellsim"], &json!({"scenario": c["scenario"], "class": class})) {
            Ok(m) if m["reproduced"].as_bool() == Some(true) => {
                c["original_scenario"] = c["scenario"].clone();
                c["scenario"] = m["scenario"].clone();
                c["detail"] = m["detail"].clone();
                c["log"] = m["log"].clone();
                c["minimise_trials"] = m["trials"].clone();
            }
            Ok(_) => {}
            Err(e) => harness_errors.push(json!({"what": "minimiser failed", "error": e})),
        }
        let src: Vec<String> = c["scenario"]["threads"]
            .as_array()
            .map(|ts| ts.iter().map(|t| t.as_array().map(|ops| ops.iter().map(|o| o["src"].as_str().unwrap_or("").to_string()).collect::<Vec<_>>().join("; ")).unwrap_or_default()).collect())
            .unwrap_or_default();
        c["subject_id"] = json!(format!("{} || {}", src.join(" || "), c["scenario"]["prog"].as_str().unwrap_or("")));
        let mut verdict = confirm_cellsim(&c);
        if matches!(verdict, Ok(false)) && c["scenario"]["threads"].as_array().map_or(0, |a| a.len()) > 1 {
            // The worker (and the minimiser) found the failure in a process that had already run
            // other executions; a defect that keeps process-wide state behaves differently from a
            // cold start. Search schedules again with ONE FRESH PROCESS PER TRIAL, and keep the
            // first explicit schedule that fails from a cold start.
            for i in 0..64u64 {
                let mut sc = c["scenario"].clone();
                sc["sched_seed"] = json!(crate::prng::derive_n(seed ^ 0xC01D, "cold-research", i));
                sc["policy"] = match i % 4 {
                    0 => json!({"random": {"stick": 0}}),
                    1 => json!({"random": {"stick": 10}}),
                    2 => json!({"pct": {"depth": 2, "est_steps": 24}}),
                    _ => json!({"pct": {"depth": 3, "est_steps": 40}}),
                };
                let Ok(out) = proc::call(&["single", "cellsim"], &sc) else { continue };
                if out["violation"].as_array().map_or(false, |a| a[0].as_str() == Some(class.as_str())) {
                    sc["policy"] = json!({"list": out["choices"]});
                    c["scenario"] = sc;
                    c["detail"] = out["violation"][1].clone();
                    c["log"] = out["log"].clone();
                    c["cold_start_research_trials"] = json!(i + 1);
                    verdict = confirm_cellsim(&c);
                    break;
                }
            }
        }
        match verdict {
            Ok(true) => {
                *per_class.entry(class.clone()).or_default() += 1;
                confirmed.push(c)
            }
            Ok(false) => {
                unconfirmed += 1;
                harness_errors.push(json!({"what": "candidate did not reproduce in a fresh process", "candidate": c}));
            }
            Err(e) => harness_errors.push(json!({"what": "replay failed", "error": e})),
        }
    }
    // Findings that only showed up in workers with a history (none of their scenarios fails alone)
    // point at process-wide state. Probe from a cold start: every shared program under a few
    // schedules, one fresh process per trial; whatever fails there with the same class is a
    // self-contained replay of the same defect.
    if property == "C16" && unconfirmed > 0 {
        let wanted: BTreeSet<String> = attempts.keys().filter(|k| !k.contains('|')).filter(|k| per_class.get(*k).copied().unwrap_or(0) == 0).cloned().collect();
        if !wanted.is_empty() {
            let mut probes = Vec::new();
            for (pi, prog) in crate::cellsim::SHARED_PROGS.iter().enumerate() {
                for i in 0..6u64 {
                    let policy = match i % 3 {
                        0 => json!({"random": {"stick": 0}}),
                        1 => json!({"random": {"stick": 8}}),
                        _ => json!({"pct": {"depth": 3, "est_steps": 40}}),
                    };
                    probes.push((
                        vec!["single".to_string(), "cellsim".to_string()],
                        json!({"sim": "cellsim", "boot_seed": hashsim::boot_seed_n(seed, 0), "key_seed": crate::prng::derive_n(seed, "probe-keys", pi as u64), "lock_policy": 0,
                               "mode": "shared_code", "policy": policy, "prog": prog, "sched_seed": crate::prng::derive_n(seed, "probe-sched", pi as u64 * 16 + i), "threads": [[], [], []]}),
                    ));
                }
            }
            let scenarios: Vec<Value> = probes.iter().map(|p| p.1.clone()).collect();
            for (sc, out) in scenarios.into_iter().zip(proc::call_many(probes, par)) {
                let Ok(out) = out else { continue };
                let Some(class) = out["violation"].as_array().and_then(|a| a[0].as_str()).map(|s| s.to_string()) else { continue };
                if !wanted.contains(&class) || per_class.get(&class).copied().unwrap_or(0) >= 2 {
                    continue;
                }
                let mut sc = sc;
                sc["policy"] = json!({"list": out["choices"]});
                let c = json!({"sim": "cellsim", "class": class, "scenario": sc, "detail": out["violation"][1], "log": out["log"],
                               "subject_id": format!("cold-start probe ||  || {}", sc["prog"].as_str().unwrap_or("")),
                               "found_by": "cold-start probe after candidates that only failed inside a worker's history"});
                if let Ok(true) = confirm_cellsim(&c) {
                    *per_class.entry(class).or_default() += 1;
                    confirmed.push(c);
                }
            }
        }
    }
    // vacuity guard: generated (non-attack) operations are all well-typed on the pinned tree; if the
    // checker starts refusing a large share of them the run no longer exercises the property
    let unexpected: u64 = rejected.iter().filter(|(k, _)| k.starts_with("UNEXPECTED ")).map(|(_, v)| *v).sum();
    let total_ops: u64 = ops.values().sum();
    if unexpected * 5 > total_ops.max(1) {
        harness_errors.push(json!({"what": "more than 20% of the generated well-typed operations are rejected by the checker: workload vacuous, no verdict", "rejected": unexpected, "operations": total_ops}));
    }
    // second engine (C16 thorough only): the crate as shipped under Miri's seeded scheduler
    let miri = if property == "C16" && thorough {
        let procs: u64 = std::env::var("VERIF_MIRI_PROCS").ok().and_then(|s| s.parse().ok()).unwrap_or(16);
        let rounds: u64 = std::env::var("VERIF_MIRI_ROUNDS").ok().and_then(|s| s.parse().ok()).unwrap_or(12);
        let ph = crate::mirisim::phase(seed, procs, rounds);
        confirmed.extend(ph.violations);
        harness_errors.extend(ph.harness_errors);
        ph.coverage
    } else {
        json!({"status": "thorough tier of C16 only"})
    };
    hunt_hangs("cellsim", &mut harness_errors, &mut confirmed);
    let wall = t0.elapsed().as_secs_f64();
    let (rule, distinct) = if property == "C13" {
        (
            "One run = one seeded history of 5-40 operations (assignments with all 12 operators incl. failing ones, reads, renderings, identity tests, parameter passing, read-after-rhs, fresh cells, re-pointing a cell of cells, plus 'attack' assignments the checker must refuse) over the aliasing graph of the fixed world (10 cells of 8 declared types reachable through 25 alias paths), under the run's hash keys; after EVERY step the result is compared with the reference heap, every cell is read through every alias path, and every cell's content is checked against its declared type. distinct_nontrivial = distinct histories (digest of operation texts + results).",
            hist.len() as u64,
        )
    } else {
        (
            "One run = one shuttle execution (2-3 tasks x 1-4 pre-built operations on the shared world, or 2-3 tasks executing one shared Code) under one seeded scheduler (uniform random, sticky random, PCT depth 1-4) and one hash-key seed; every acquire/release of a cell's lock is a scheduling point. A fifth family (handshake) runs pollers against signallers under the fair random policy: once the last signaller has finished, a polling loop that starts more than eight further iterations is `no-progress`. Oracles: deadlock (all tasks blocked), panic, per-cell linearizability of the recorded history (Wing-Gong against the sequential cell model, final contents included), declared-type check of every cell, equality with the sequential run for shared Code. distinct_nontrivial = distinct interleavings, measured as distinct digests of the per-run sequence of (task, lock, lock-event).",
            sched.len() as u64,
        )
    };
    let coverage = json!({
        "evaluations": n,
        "distinct_nontrivial": distinct,
        "rule": rule,
        "samples": samples,
        "simulated_time_events": events,
        "lock_events": lock_events,
        "context_switches": switches,
        "distinct_schedules": sched.len(),
        "distinct_histories": hist.len(),
        "runs_per_hour": (n as f64 / wall * 3600.0) as u64,
        "seeds_per_hour": (n as f64 / wall * 3600.0) as u64,
        "operations_by_kind": ops,
        "scheduler_policies": policies,
        "runs_by_workload_family": modes,
        "fault_kinds_fired": {"failing_compound_assignment": failing, "hash_key_reseed": n, "attack_assignments_rejected_by_checker": rejected.values().sum::<u64>()},
        "probes": probes,
        "overlapping_read_modify_write_pairs": overlapped,
        "rejected_operations": rejected,
        "unexpectedly_rejected_operations": unexpected,
        "replayed_from_explicit_record": det,
        "boot_seeds": boots,
        "worker_processes": boots * shards,
        "unconfirmed_candidates": unconfirmed,
        "miri_phase": miri,
        "real_vs_stub": {"real": ["parser", "checker", "recreate", "exec", "variable::Mut", "assign::exec/try_exec", "indirection", "Mut::string", "lazy_static helper functions (ITER/MAP/FILTER)"], "model": ["std::sync::RwLock -> writer-preferring simulated lock (std's Linux futex policy) over a real inner std RwLock"], "stub": ["OS threads -> shuttle tasks", "stdout captured"]},
        "exhaustive": false,
    });
    finish(Report {
        property: property.to_string(),
        tier: tier.to_string(),
        seed,
        level: "exploration",
        coverage,
        assumptions: vec![
            "the simulated lock admits exactly what std's futex RwLock admits on Linux (readers wait behind a queued writer); validated against real threads by `check selftest`".into(),
            "interleavings are only distinguishable at lock operations: all other interpreter state is thread-private or immutable Arc data".into(),
            "small operands: the reference arithmetic never overflows, so C08's wrap-around rules are not re-specified here".into(),
        ],
        violations: confirmed,
        harness_errors,
        wall_s: wall,
    })
}

pub fn confirm_any(sim: &str, v: &Value) -> Result<bool, String> {
    if let Some(r) = confirm_crash(sim, v) {
        return r;
    }
    if let Some(r) = confirm_hang(sim, v) {
        return r;
    }
    match sim {
        "hashsim" => confirm_hashsim(v),
        "cellsim" => confirm_cellsim(v),
        "ossim" => confirm_ossim(v),
        "replsim" => confirm_replsim(v),
        "miri" => crate::mirisim::confirm(v),
        other => Err(format!("unknown sim {other}")),
    }
}

// ---------------------------------------------------------------------------------------------
// ossim-based properties (C18, and the import clause of C03)

fn confirm_ossim(v: &Value) -> Result<bool, String> {
    let out = proc::call(&["single", "ossim"], &v["scenario"])?;
    let class = v["class"].as_str().unwrap_or("");
    Ok(out["violation"].as_array().map_or(false, |a| a[0].as_str() == Some(class)))
}

pub fn check_ossim(property: &str, tier: &str) -> i32 {
    let t0 = Instant::now();
    let seed = verif_seed();
    let thorough = tier == "thorough";
    let par = workers();
    let boots = if thorough { 4 } else { 2 };
    let shards = (par / boots).max(1);
    let runs: u64 = scaled(if property == "C03" { 0 } else if thorough { 1_200_000 } else { 80_000 });
    let validate: u64 = if property == "C03" { 0 } else if thorough { 20_000 } else { 150 };
    let nw = (boots * shards) as u64;
    let mut jobs = Vec::new();
    for b in 0..boots {
        for s in 0..shards {
            // C03 enumerates the whole case list once per boot seed; C18 shards its runs over all workers
            let (shard, nshards) = if property == "C03" { (s as u64, shards as u64) } else { ((b * shards + s) as u64, nw) };
            jobs.push((
                vec!["worker".to_string(), "ossim".to_string()],
                json!({"property": property, "tier": tier, "seed": seed, "boot_seed": hashsim::boot_seed_n(seed, b), "shard": shard, "shards": nshards, "runs": runs, "validate_runs": validate, "real_runs": if property == "C03" { 0 } else { scaled(if thorough { 2_500 } else { 50 }) }}),
            ));
        }
    }
    let mut crashes: Vec<Value> = Vec::new();
    let results = call_many_hunting("ossim", jobs, par, &mut crashes);
    let mut harness_errors = Vec::new();
    let mut candidates: Vec<Value> = Vec::new();
    let mut n = 0u64;
    let mut events = 0u64;
    let mut triples: BTreeSet<String> = BTreeSet::new();
    let mut faults: BTreeMap<String, u64> = BTreeMap::new();
    let mut natural: BTreeMap<String, u64> = BTreeMap::new();
    let mut real_worlds: BTreeMap<String, u64> = BTreeMap::new();
    let mut counters: BTreeMap<String, u64> = BTreeMap::new();
    let mut samples = Vec::new();
    let mut cases_total = 0u64;
    let add = |m: &mut BTreeMap<String, u64>, v: &Value| {
        if let Some(o) = v.as_object() {
            for (k, c) in o {
                *m.entry(k.clone()).or_default() += c.as_u64().unwrap_or(0);
            }
        }
    };
    for r in results {
        match r {
            Err(e) => harness_errors.push(json!({"what": "worker failed", "error": e})),
            Ok(v) => {
                n += v["runs"].as_u64().unwrap_or(0);
                events += v["events"].as_u64().unwrap_or(0);
                cases_total = cases_total.max(v["cases_total"].as_u64().unwrap_or(0));
                for t in v["triples"].as_array().cloned().unwrap_or_default() {
                    triples.insert(t.as_str().unwrap().to_string());
                }
                add(&mut faults, &v["faults_fired"]);
                add(&mut natural, &v["natural_errors"]);
                add(&mut real_worlds, &v["real_directory_runs"]);
                for k in ["torn_effects", "torn_seen_by_later_read", "fault_right_after_create", "lang_route_rejected", "distinct_final_states", "validated_against_real_fs", "table_runs", "single_fault_enumeration_runs"] {
                    *counters.entry(k.to_string()).or_default() += v[k].as_u64().unwrap_or(0);
                }
                for h in v["harness_errors"].as_array().cloned().unwrap_or_default() {
                    harness_errors.push(h);
                }
                for c in v["violations"].as_array().cloned().unwrap_or_default() {
                    candidates.push(c);
                }
                if samples.len() < 4 {
                    for s in v["samples"].as_array().cloned().unwrap_or_default().into_iter().take(1) {
                        samples.push(s);
                    }
                }
            }
        }
    }
    // worker processes that died: each already reduced to the one scenario that kills a lone process
    let mut confirmed: Vec<Value> = crashes;
    let mut per_class: BTreeMap<String, usize> = BTreeMap::new();
    let mut seen: BTreeSet<String> = BTreeSet::new();
    let mut unconfirmed = 0;
    for c in candidates {
        let class = c["class"].as_str().unwrap_or("").to_string();
        let mut c = c;
        c["sim"] = json!("ossim");
        let is_seq = matches!(c["scenario"]["sim"].as_str(), Some("ossim") | Some("ossim-real"));
        if is_seq {
            let k = per_class.entry(class.clone()).or_default();
            if *k >= 3 {
                continue;
            }
            *k += 1;
            match proc::call(&["minimise", "ossim"], &json!({"scenario": c["scenario"], "class": class})) {
                Ok(m) if m["reproduced"].as_bool() == Some(true) => {
                    c["original_scenario"] = c["scenario"].clone();
                    c["scenario"] = m["scenario"].clone();
                    c["detail"] = m["detail"].clone();
                    c["log"] = m["log"].clone();
                    c["minimise_trials"] = m["trials"].clone();
                }
                Ok(_) => {}
                Err(e) => harness_errors.push(json!({"what": "minimiser failed", "error": e})),
            }
            let calls: Vec<String> = c["scenario"]["calls"].as_array().map(|cs| cs.iter().map(|x| format!("{}({})", x["func"].as_str().unwrap_or(""), x["args"])).collect()).unwrap_or_default();
            c["subject_id"] = json!(format!("{} faults={}", calls.join("; "), c["scenario"]["faults"]));
        }
        let key = format!("{}|{}", class, c["subject_id"].as_str().unwrap_or(""));
        if !seen.insert(key) || confirmed.len() >= 12 {
            continue;
        }
        match confirm_ossim(&c) {
            Ok(true) => confirmed.push(c),
            Ok(false) => {
                unconfirmed += 1;
                harness_errors.push(json!({"what": "candidate did not reproduce in a fresh process", "candidate": c}));
            }
            Err(e) => harness_errors.push(json!({"what": "replay failed", "error": e})),
        }
    }
    hunt_hangs("ossim", &mut harness_errors, &mut confirmed);
    let wall = t0.elapsed().as_secs_f64();
    let fault_total: u64 = faults.values().sum();
    let (level, rule, exhaustive) = if property == "C03" {
        (
            "fault_enumeration",
            "Complete enumeration of: 10 program forms containing `import \"p\"` (bound, bare, inside a function, inside a block, twice, in a branch, twice with member use, diamond p+q, inside a function called twice, after declarations of the importer) x 20 states of the file p (absent, directory, empty, whitespace/comment only, a lone constant, valid module incl. an underscore name, constant last, shadowing the importer's names, syntax error, type error, constant folding fails (2), non-UTF-8, undefined name, misplaced break/return, unterminated string, oversized literal, importing q) x, when p imports q (or the form imports q itself), 19 states of q x {no fault, each of 18 errno kinds on the first read, 4 errno kinds on the second read, 3 errno kinds on both reads}. Each case: Code::parse under catch_unwind against the simulated FS; oracle: Ok or Err, never a panic; a failed first read surfaces as Error::IO of that kind; no program is accepted when its last read failed; an accepted program executes without panic; a readable module (and a nested one) yields exactly its file's top-level names, the importer's names are untouched, and programs using the members evaluate to the values the files define. distinct_nontrivial = distinct (p state, q state, fault kind) combinations reached. ONLY this clause of C03 is covered: totality over arbitrary text is input enumeration and outside this technique family.",
            true,
        )
    } else {
        (
            "exploration",
            "One run = seeded initial file tree (files incl. non-UTF-8, directories, nesting) + 1-8 calls of std.fs.* / std.io.cgetline / print / print_array over a 12-path universe (missing, file-as-directory, NUL, over-long, './', '//'), each through the host API or a generated SimpleSL program, with an explicit fault plan (18 errno kinds, before-effect or torn) keyed by OS-call index; fault-free and fault-injecting runs alternate. Every 16th run also calls every other export once with seeded boundary arguments (workload only: the pure-function part of C18 gets just this sample from this technique). One fault-injecting run in six carries a STICKY failure (every OS call from an index on fails with one errno: a state, not an event). Oracles per call: no panic, value in declared result type; without a fault in flight the value and the file tree afterwards equal those of the documented operation applied to the pre-state by the model; with a fault the error struct is that of an OS call that failed in this invocation and a success carries data of the last OS call; a call that repeats a failing OS call 1000 times is `no-progress`; afterwards every path is read back through the library and compared with the tree. 50 runs per worker execute the library UNHOOKED in a real scratch directory (plain worlds compared with the simulated run, odd worlds - non-UTF-8 names, symbolic links, removed working directory - judged for panics and types). Odd boot seeds run with a bare process environment. The whole check is repeated on 25% of the budget by an overflow-checked build. distinct_nontrivial = distinct (function, file-system state class, fault kind) triples reached.",
            false,
        )
    };
    let coverage = json!({
        "evaluations": n,
        "distinct_nontrivial": triples.len(),
        "rule": rule,
        "samples": samples,
        "simulated_time_events": events,
        "runs_per_hour": (n as f64 / wall * 3600.0) as u64,
        "seeds_per_hour": (n as f64 / wall * 3600.0) as u64,
        "fault_kinds_fired": faults,
        "faults_fired_total": fault_total,
        "state_dependent_errors_produced_by_model": natural,
        "unhooked_runs_in_a_real_directory_by_world": real_worlds,
        "probes": counters,
        "cases_enumerated": cases_total,
        "boot_seeds": boots,
        "worker_processes": boots * shards,
        "unconfirmed_candidates": unconfirmed,
        "real_vs_stub": {"real": ["#[export] glue", "From<io::Result<T>> / From<io::Error> for Variable", "TypeOf-derived signatures", "create_call / call instruction", "LocalVariables::load (import)", "parser + checker"], "stub": ["std::fs -> in-memory tree with Linux errno semantics (validated against real std::fs on fault-free sequences: see probes.validated_against_real_fs)", "io::stdin -> scripted", "println! -> captured", "process environment -> bare for odd boot seeds", "nothing stubbed in the unhooked real-directory runs (real std::fs in a scratch directory)"]},
        "exhaustive": exhaustive,
    });
    finish(Report {
        property: property.to_string(),
        tier: tier.to_string(),
        seed,
        level,
        coverage,
        assumptions: vec![
            "the in-memory FS answers like Linux std::fs for the path universe used (checked against the real file system in a scratch directory on the fault-free sequences; count in probes.validated_against_real_fs)".into(),
            "injected errno kinds are ones std can return on Linux; torn effects are modelled for write, copy, remove_dir_all and create_dir_all only".into(),
        ],
        violations: confirmed,
        harness_errors,
        wall_s: wall,
    })
}

// ---------------------------------------------------------------------------------------------
// replsim (C17)

fn confirm_replsim(v: &Value) -> Result<bool, String> {
    let out = proc::call(&["single", "replsim"], &v["scenario"])?;
    let class = v["class"].as_str().unwrap_or("");
    Ok(out["violation"].as_array().map_or(false, |a| a[0].as_str() == Some(class)))
}

pub fn check_replsim(property: &str, tier: &str) -> i32 {
    let t0 = Instant::now();
    let seed = verif_seed();
    let thorough = tier == "thorough";
    let par = workers();
    let boots = if thorough { 4 } else { 2 };
    let shards = (par / boots).max(1);
    let runs: u64 = if thorough { 400_000 } else { 16_000 };
    let nw = (boots * shards) as u64;
    let mut jobs = Vec::new();
    for b in 0..boots {
        for s in 0..shards {
            jobs.push((
                vec!["worker".to_string(), "replsim".to_string()],
                json!({"property": property, "tier": tier, "seed": seed, "boot_seed": hashsim::boot_seed_n(seed, b), "shard": (b * shards + s) as u64, "shards": nw, "runs": runs}),
            ));
        }
    }
    let mut crashes: Vec<Value> = Vec::new();
    let results = call_many_hunting("replsim", jobs, par, &mut crashes);
    let mut harness_errors = Vec::new();
    let mut candidates: Vec<Value> = Vec::new();
    let mut n = 0u64;
    let mut counters: BTreeMap<String, u64> = BTreeMap::new();
    let mut hist: BTreeSet<String> = BTreeSet::new();
    let mut samples = Vec::new();
    let mut pool = 0;
    for r in results {
        match r {
            Err(e) => harness_errors.push(json!({"what": "worker failed", "error": e})),
            Ok(v) => {
                n += v["runs"].as_u64().unwrap_or(0);
                pool = v["sessions_in_pool"].as_u64().unwrap_or(0);
                for k in ["events", "prefixes_compared", "prefixes_inconclusive", "scoped_checked", "again_checked", "hostcalls", "hostcalls_rejected_both", "variables_compared"] {
                    *counters.entry(k.to_string()).or_default() += v[k].as_u64().unwrap_or(0);
                }
                for d in v["hist_digests"].as_array().cloned().unwrap_or_default() {
                    hist.insert(d.as_str().unwrap().to_string());
                }
                for h in v["harness_errors"].as_array().cloned().unwrap_or_default() {
                    harness_errors.push(h);
                }
                for c in v["violations"].as_array().cloned().unwrap_or_default() {
                    candidates.push(c);
                }
                if samples.len() < 3 {
                    for s in v["samples"].as_array().cloned().unwrap_or_default().into_iter().take(1) {
                        samples.push(s);
                    }
                }
            }
        }
    }
    // worker processes that died: each already reduced to the one scenario that kills a lone process
    let mut confirmed: Vec<Value> = crashes;
    let mut per_class: BTreeMap<String, usize> = BTreeMap::new();
    let mut seen: BTreeSet<String> = BTreeSet::new();
    let mut unconfirmed = 0;
    for c in candidates {
        let class = c["class"].as_str().unwrap_or("").to_string();
        // candidates from the sessions that pin a known finding (kf_*) have a quota of their own:
        // they must not use up the slots of a different violation of the same class
        let kf = c["scenario"]["name"].as_str().is_some_and(|n| n.starts_with("kf_"));
        let k = per_class.entry(if kf { format!("kf:{class}") } else { class.clone() }).or_default();
        if *k >= if kf { 2 } else { 4 } {
            continue;
        }
        *k += 1;
        let mut c = c;
        c["sim"] = json!("replsim");
        match proc::call(&["minimise", "replsim"], &json!({"scenario": c["scenario"], "class": class})) {
            Ok(m) if m["reproduced"].as_bool() == Some(true) => {
                c["original_scenario"] = c["scenario"].clone();
                c["scenario"] = m["scenario"].clone();
                c["detail"] = m["detail"].clone();
                c["log"] = m["log"].clone();
                c["minimise_trials"] = m["trials"].clone();
            }
            Ok(_) => {}
            Err(e) => harness_errors.push(json!({"what": "minimiser failed", "error": e})),
        }
        let st: Vec<String> = c["scenario"]["statements"].as_array().map(|a| a.iter().map(|s| s.as_str().unwrap_or("").to_string()).collect()).unwrap_or_default();
        c["subject_id"] = json!(format!("{} || again: {}", st.join(" ;; "), c["scenario"]["again"].as_str().unwrap_or("")));
        if !seen.insert(format!("{class}|{}", c["subject_id"])) {
            continue;
        }
        match confirm_replsim(&c) {
            Ok(true) => confirmed.push(c),
            Ok(false) => {
                unconfirmed += 1;
                harness_errors.push(json!({"what": "candidate did not reproduce in a fresh process", "candidate": c}));
            }
            Err(e) => harness_errors.push(json!({"what": "replay failed", "error": e})),
        }
    }
    hunt_hangs("replsim", &mut harness_errors, &mut confirmed);
    let wall = t0.elapsed().as_secs_f64();
    let coverage = json!({
        "evaluations": n,
        "distinct_nontrivial": hist.len(),
        "rule": "One run = one host history against one Interpreter::with_stdlib(): a session (hand-written sessions on cells, closures, shadowing, modules, iterators, recursion, own-name parameters; the repo's example scripts and README blocks; one third with identifiers redrawn from a 3-name pool) split into REPL inputs of seeded sizes, interleaved with `exec()` of programs parsed against the live interpreter, plus a self-contained program executed three times, plus host calls vs in-language calls (well-typed, ill-typed, too short, too long argument vectors; every other pair executed UNSCOPED on its interpreter) on every function the session bound - all under the run's hash keys. Reference: the batch route for every prefix at which an input ended. distinct_nontrivial = distinct histories (digest of inputs, results and calls).",
        "samples": samples,
        "simulated_time_events": counters.get("events"),
        "probes": counters,
        "sessions_in_pool": pool,
        "runs_per_hour": (n as f64 / wall * 3600.0) as u64,
        "seeds_per_hour": (n as f64 / wall * 3600.0) as u64,
        "fault_kinds_fired": {"hash_key_reseed": n, "identifier_collision_sessions": n / 3},
        "boot_seeds": boots,
        "worker_processes": boots * shards,
        "unconfirmed_candidates": unconfirmed,
        "real_vs_stub": {"real": ["Code::parse against a live interpreter (Instruction::new_ident constant fallback)", "exec / exec_unscoped", "Function::create_call / call::create_from_variables", "parser, checker, interpreter"], "stub": ["rustyline loop of src/main.rs (its three calls are reproduced verbatim)", "stdout captured"]},
        "exhaustive": false,
    });
    finish(Report {
        property: property.to_string(),
        tier: tier.to_string(),
        seed,
        level: "exploration",
        coverage,
        assumptions: vec![
            "statements are joined with `;\\n` for the batch route (a bare newline lets `f()` / `*x` fuse into a multiplication)".into(),
            "values are compared by content: stored element types and declared cell types may legitimately differ between the routes".into(),
            "a route that is rejected, fails or panics makes the rest of the session inconclusive (the property speaks about completed runs)".into(),
        ],
        violations: confirmed,
        harness_errors,
        wall_s: wall,
    })
}
