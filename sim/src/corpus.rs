//! Program corpus: hand-written hash-sensitive programs (corpus/hash.txt), the repository's own
//! example scripts and the code blocks of README.md / docs/*.md (read from /repo at run time, so
//! they follow the working tree).
use std::fs;

#[derive(Clone, Debug)]
pub struct Prog {
    pub name: String,
    pub text: String,
}

pub fn parse_sections(text: &str) -> Vec<Prog> {
    let mut out = Vec::new();
    let mut name: Option<String> = None;
    let mut buf = String::new();
    for line in text.lines() {
        if let Some(rest) = line.strip_prefix("### ") {
            if let Some(n) = name.take() {
                out.push(Prog { name: n, text: buf.trim_end().to_string() });
            }
            name = Some(rest.trim().to_string());
            buf.clear();
        } else {
            buf.push_str(line);
            buf.push('\n');
        }
    }
    if let Some(n) = name.take() {
        out.push(Prog { name: n, text: buf.trim_end().to_string() });
    }
    out
}

pub fn hash_corpus() -> Vec<Prog> {
    parse_sections(include_str!("../corpus/hash.txt"))
}

pub fn repo_root() -> String {
    std::env::var("VERIF_REPO").unwrap_or_else(|_| "/repo".to_string())
}

fn md_blocks(path: &str, tag: &str) -> Vec<Prog> {
    let Ok(text) = fs::read_to_string(path) else { return vec![] };
    let mut out = Vec::new();
    let mut cur: Option<String> = None;
    let mut n = 0;
    for line in text.lines() {
        if line.trim_start().starts_with("```") {
            match cur.take() {
                Some(block) => {
                    out.push(Prog { name: format!("{tag}#{n}"), text: block });
                    n += 1;
                }
                None => {
                    let lang = line.trim_start().trim_start_matches('`').trim().to_string();
                    if lang.is_empty() || lang == "SimpleSL" {
                        cur = Some(String::new());
                    } else {
                        cur = None;
                        // skip foreign-language block: consume until closing fence
                        cur = Some(format!("\u{0}skip"));
                    }
                }
            }
        } else if let Some(b) = cur.as_mut() {
            b.push_str(line);
            b.push('\n');
        }
    }
    out.retain(|p| !p.text.starts_with('\u{0}'));
    out
}

/// Example scripts + README / docs code blocks of the repository under test.
pub fn repo_corpus() -> Vec<Prog> {
    let root = repo_root();
    let mut out = Vec::new();
    let mut names: Vec<String> = fs::read_dir(format!("{root}/example_scripts"))
        .map(|rd| rd.filter_map(|e| e.ok()).map(|e| e.file_name().to_string_lossy().into_owned()).collect())
        .unwrap_or_default();
    names.sort();
    for n in names {
        if let Ok(text) = fs::read_to_string(format!("{root}/example_scripts/{n}")) {
            out.push(Prog { name: format!("example:{n}"), text });
        }
    }
    out.extend(md_blocks(&format!("{root}/README.md"), "readme"));
    for d in ["iterators", "operators", "statements", "stdlib"] {
        out.extend(md_blocks(&format!("{root}/docs/{d}.md"), &format!("docs/{d}")));
    }
    out
}
