//! Allocation seam: a deterministic global allocator for the simulator process.
//!
//! C05 quantifies over "hash seeds / allocation orders the runtime can pick". With the system
//! allocator, which freed address a later allocation reuses depends on ASLR, arena assignment and
//! everything the harness itself allocates - a failure that depends on address reuse (an
//! address-keyed memo, `Arc::as_ptr` as identity) would not replay. This allocator makes the
//! address of every block a pure function of the sequence of alloc/free calls of the process:
//! power-of-two size classes, LIFO free lists (a freed block is the next one handed out: maximal
//! reuse), bump allocation from one region mapped at a fixed address. Blocks above 1 MiB and
//! everything after the region is exhausted go to the system allocator.
use std::alloc::{GlobalAlloc, Layout, System};
use std::sync::atomic::{AtomicBool, AtomicUsize, Ordering};

const BASE: usize = 0x6a00_0000_0000;
const REGION: usize = 16 << 30; // virtual reservation; pages are touched lazily
const MIN_SHIFT: u32 = 4; // 16 bytes
const MAX_SHIFT: u32 = 20; // 1 MiB
const CLASSES: usize = (MAX_SHIFT - MIN_SHIFT + 1) as usize;

pub struct DetAlloc;

static LOCK: AtomicBool = AtomicBool::new(false);
static READY: AtomicUsize = AtomicUsize::new(0); // 0 = not tried, 1 = mapped, 2 = unavailable
static mut BUMP: usize = 0;
static mut FREE: [usize; CLASSES] = [0; CLASSES];
pub static ALLOCS: AtomicUsize = AtomicUsize::new(0);
pub static REUSED: AtomicUsize = AtomicUsize::new(0);

fn lock() {
    while LOCK.compare_exchange_weak(false, true, Ordering::Acquire, Ordering::Relaxed).is_err() {
        std::hint::spin_loop();
    }
}

fn unlock() {
    LOCK.store(false, Ordering::Release);
}

fn class_of(layout: &Layout) -> Option<usize> {
    let need = layout.size().max(layout.align()).max(1usize << MIN_SHIFT);
    let shift = usize::BITS - (need - 1).leading_zeros();
    if shift > MAX_SHIFT {
        None
    } else {
        Some((shift.max(MIN_SHIFT) - MIN_SHIFT) as usize)
    }
}

unsafe fn ensure_region() -> bool {
    match READY.load(Ordering::Acquire) {
        1 => return true,
        2 => return false,
        _ => {}
    }
    // called with the lock held
    let p = libc::mmap(
        BASE as *mut libc::c_void,
        REGION,
        libc::PROT_READ | libc::PROT_WRITE,
        libc::MAP_PRIVATE | libc::MAP_ANONYMOUS | libc::MAP_NORESERVE | libc::MAP_FIXED_NOREPLACE,
        -1,
        0,
    );
    if p as usize == BASE {
        BUMP = BASE;
        READY.store(1, Ordering::Release);
        true
    } else {
        if p != libc::MAP_FAILED {
            libc::munmap(p, REGION);
        }
        READY.store(2, Ordering::Release);
        false
    }
}

fn in_region(p: *mut u8) -> bool {
    let a = p as usize;
    (BASE..BASE + REGION).contains(&a)
}

unsafe impl GlobalAlloc for DetAlloc {
    unsafe fn alloc(&self, layout: Layout) -> *mut u8 {
        let Some(c) = class_of(&layout) else { return System.alloc(layout) };
        lock();
        if !ensure_region() {
            unlock();
            return System.alloc(layout);
        }
        let size = 1usize << (c as u32 + MIN_SHIFT);
        let head = FREE[c];
        let p = if head != 0 {
            // pop: the first word of a free block links to the next one
            FREE[c] = *(head as *const usize);
            REUSED.fetch_add(1, Ordering::Relaxed);
            head
        } else {
            // bump, aligned to the block size (sizes are powers of two)
            let a = (BUMP + size - 1) & !(size - 1);
            if a + size > BASE + REGION {
                unlock();
                return System.alloc(layout);
            }
            BUMP = a + size;
            a
        };
        ALLOCS.fetch_add(1, Ordering::Relaxed);
        unlock();
        p as *mut u8
    }

    unsafe fn dealloc(&self, ptr: *mut u8, layout: Layout) {
        if !in_region(ptr) {
            return System.dealloc(ptr, layout);
        }
        let c = class_of(&layout).expect("block in region has a class");
        lock();
        *(ptr as *mut usize) = FREE[c];
        FREE[c] = ptr as usize;
        unlock();
    }
}
