//! Second execution engine for C16 (thorough tier): the crate exactly as shipped (guard off, real
//! `std::sync` primitives) on real `std::thread`s inside Miri, whose scheduler is seeded
//! (`-Zmiri-seed`) and pre-empts at basic-block granularity (`-Zmiri-preemption-rate`) - also
//! inside `OnceLock`, atomics, `Mutex`, thread-locals, where the shuttle engine has no scheduling
//! point. One (seed, rate, first round, rounds, threads) tuple is one exactly repeatable
//! execution of `/verif/miri` (see its `src/main.rs` for workload and oracles).
//!
//! A Miri process costs about a minute of start-up (the interpreter builds its standard library
//! and lazy statics under an interpreter), so this engine samples hundreds of interleavings where
//! the shuttle engine samples millions; it is an addition to it, not a replacement.
use crate::driver::{verif_dir, workers};
use crate::prng::derive_n;
use serde_json::{json, Value};
use std::collections::BTreeMap;
use std::process::{Command, Stdio};
use std::sync::{Arc, Mutex};
use std::time::{Duration, Instant};

const RATES: &[&str] = &["0.05", "0.01", "0.2"];
/// hard cap per Miri process; a deadlock is reported by Miri itself long before
const PROCESS_TIMEOUT: Duration = Duration::from_secs(45 * 60);

#[derive(Clone, Debug)]
pub struct Scenario {
    pub miri_seed: u64,
    pub rate: String,
    pub first: u64,
    pub rounds: u64,
    pub threads: u64,
}

impl Scenario {
    pub fn to_json(&self) -> Value {
        json!({"miri_seed": self.miri_seed, "preemption_rate": self.rate, "first_round": self.first, "rounds": self.rounds, "threads": self.threads,
               "command": format!("cd {}/miri && MIRIFLAGS=\"{}\" cargo +nightly miri run --offline -- {:06} {:06} {:02}", verif_dir(), self.flags(), self.first, self.rounds, self.threads)})
    }
    pub fn from_json(v: &Value) -> Option<Scenario> {
        Some(Scenario {
            miri_seed: v["miri_seed"].as_u64()?,
            rate: v["preemption_rate"].as_str()?.to_string(),
            first: v["first_round"].as_u64()?,
            rounds: v["rounds"].as_u64()?,
            threads: v["threads"].as_u64()?,
        })
    }
    fn flags(&self) -> String {
        // leaks: a cell that contains itself is a reference cycle of Arcs (legal, and part of the workload)
        // isolation stays ON: with it off Miri serves `getrandom` (hash keys!) from the host and the
        // run would no longer be a function of the seed
        format!("-Zmiri-ignore-leaks -Zmiri-preemption-rate={} -Zmiri-seed={}", self.rate, self.miri_seed)
    }
}

#[derive(Debug)]
pub enum Outcome {
    /// all rounds finished; per-kind round counts
    Clean(BTreeMap<String, u64>),
    /// (class, detail, failing round if known)
    Violation(String, String, Option<u64>),
    /// Miri could not be used (not installed, build failed, unsupported operation, timeout)
    Unavailable(String),
}

fn wait_with_timeout(mut child: std::process::Child, limit: Duration) -> Result<std::process::Output, String> {
    use std::io::Read;
    let mut out = child.stdout.take().unwrap();
    let mut err = child.stderr.take().unwrap();
    let ho = std::thread::spawn(move || {
        let mut s = Vec::new();
        let _ = out.read_to_end(&mut s);
        s
    });
    let he = std::thread::spawn(move || {
        let mut s = Vec::new();
        let _ = err.read_to_end(&mut s);
        s
    });
    let t0 = Instant::now();
    let status = loop {
        match child.try_wait() {
            Ok(Some(st)) => break st,
            Ok(None) => {
                if t0.elapsed() > limit {
                    let _ = child.kill();
                    let _ = child.wait();
                    return Err(format!("timeout after {:?}", limit));
                }
                std::thread::sleep(Duration::from_millis(200));
            }
            Err(e) => return Err(format!("wait: {e}")),
        }
    };
    Ok(std::process::Output { status, stdout: ho.join().unwrap_or_default(), stderr: he.join().unwrap_or_default() })
}

pub fn run_one(sc: &Scenario) -> Outcome {
    let dir = format!("{}/miri", verif_dir());
    let child = Command::new("cargo")
        .args(["+nightly", "miri", "run", "--offline", "--quiet", "--"])
        // fixed-width arguments: the argument strings are allocations of the interpreted program,
        // and Miri's address randomisation draws from the same stream as its scheduler
        .args([format!("{:06}", sc.first), format!("{:06}", sc.rounds), format!("{:02}", sc.threads)])
        .current_dir(&dir)
        .env("MIRIFLAGS", sc.flags())
        .env("CARGO_NET_OFFLINE", "true")
        .env_remove("RUSTFLAGS")
        .stdin(Stdio::null())
        .stdout(Stdio::piped())
        .stderr(Stdio::piped())
        .spawn();
    let child = match child {
        Ok(c) => c,
        Err(e) => return Outcome::Unavailable(format!("cannot start cargo: {e}")),
    };
    let out = match wait_with_timeout(child, PROCESS_TIMEOUT) {
        Ok(o) => o,
        Err(e) => return Outcome::Unavailable(e),
    };
    let stdout = String::from_utf8_lossy(&out.stdout).to_string();
    let stderr = String::from_utf8_lossy(&out.stderr).to_string();
    let mut kinds: BTreeMap<String, u64> = BTreeMap::new();
    let mut last_ok: Option<u64> = None;
    let mut done = false;
    for l in stdout.lines() {
        if let Some(rest) = l.strip_prefix("MIRISIM-VIOLATION ") {
            let round = rest.split_whitespace().find_map(|w| w.strip_prefix("round=")).and_then(|r| r.parse().ok());
            let class = rest.split_whitespace().find_map(|w| w.strip_prefix("class=")).unwrap_or("violation").to_string();
            if class == "harness" {
                return Outcome::Unavailable(format!("harness problem inside Miri: {rest:.400}"));
            }
            return Outcome::Violation(class, rest.to_string(), round);
        }
        if let Some(rest) = l.strip_prefix("MIRISIM round=") {
            let mut it = rest.split_whitespace();
            last_ok = it.next().and_then(|r| r.parse().ok());
            if let Some(k) = it.next().and_then(|k| k.strip_prefix("kind=")) {
                *kinds.entry(k.to_string()).or_default() += 1;
            }
        }
        if l.starts_with("MIRISIM done") {
            done = true;
        }
    }
    let first_error = stderr.lines().find(|l| l.starts_with("error")).unwrap_or("").to_string();
    let failing = Some(last_ok.map_or(sc.first, |r| r + 1));
    if first_error.contains("deadlock") {
        return Outcome::Violation("deadlock".into(), format!("Miri: {first_error} (in round {})", failing.unwrap()), failing);
    }
    if first_error.contains("Undefined Behavior") || first_error.contains("Data race") || first_error.contains("data race") {
        return Outcome::Violation("undefined-behaviour".into(), format!("Miri: {first_error} (in round {})", failing.unwrap()), failing);
    }
    if done && out.status.success() {
        return Outcome::Clean(kinds);
    }
    // a panic that escaped `together` (the harness's main thread: parsing, sequential reference
    // runs) is a panic of the code under test when it was raised inside the repository's sources
    if let Some(pos) = stderr.find("panicked at") {
        let text: String = stderr[pos..].lines().take(2).collect::<Vec<_>>().join(" ");
        if text.contains("/repo/") {
            return Outcome::Violation("panic".into(), format!("round {}: the main thread of the harness {text:.500}", failing.unwrap()), failing);
        }
    }
    Outcome::Unavailable(format!("status {:?}; {:.300}; stderr tail: {:.600}", out.status.code(), first_error, stderr.lines().rev().take(6).collect::<Vec<_>>().join(" | ")))
}

/// Builds the harness (and proves Miri usable) with a zero-round run.
pub fn available() -> Result<(), String> {
    if std::env::var("VERIF_MIRI").map_or(false, |v| v == "0") {
        return Err("disabled by VERIF_MIRI=0".into());
    }
    match run_one(&Scenario { miri_seed: 0, rate: "0.05".into(), first: 0, rounds: 0, threads: 0 }) {
        Outcome::Clean(_) => Ok(()),
        Outcome::Unavailable(e) => Err(e),
        Outcome::Violation(c, d, _) => Err(format!("zero-round run reported {c}: {d}")),
    }
}

/// Same violation class from the same scenario, in a fresh process.
pub fn confirm(v: &Value) -> Result<bool, String> {
    let sc = Scenario::from_json(&v["scenario"]).ok_or("bad miri scenario")?;
    match run_one(&sc) {
        Outcome::Violation(c, _, _) => Ok(Some(c.as_str()) == v["class"].as_str()),
        Outcome::Clean(_) => Ok(false),
        Outcome::Unavailable(e) => Err(format!("Miri unavailable: {e}")),
    }
}

/// Shrinks a failing scenario: only the failing round, then ever longer suffixes ending in it,
/// under the same Miri seed (the schedule is a function of seed and program, so every candidate
/// is simply tried). Returns the smallest one that fails with the same class, else the original.
fn minimise(sc: &Scenario, class: &str, round: Option<u64>) -> (Scenario, u64) {
    let Some(r) = round else { return (sc.clone(), 0) };
    let mut trials = 0;
    let mut firsts: Vec<u64> = vec![r];
    let mut f = r;
    while f > sc.first {
        f = f.saturating_sub(3).max(sc.first);
        firsts.push(f);
    }
    // a Miri process costs minutes: the failing round alone, the last four rounds, the prefix
    firsts.truncate(2);
    if !firsts.contains(&sc.first) {
        firsts.push(sc.first);
    }
    for first in firsts {
        if first == sc.first && r + 1 - first == sc.rounds {
            break;
        }
        let cand = Scenario { first, rounds: r + 1 - first, ..sc.clone() };
        trials += 1;
        if let Outcome::Violation(c, _, _) = run_one(&cand) {
            if c == class {
                return (cand, trials);
            }
        }
    }
    // nothing shorter fails the same way: the schedule is a function of the whole command line,
    // so the scenario that did fail is the replay
    (sc.clone(), trials)
}

pub struct Phase {
    pub coverage: Value,
    pub violations: Vec<Value>,
    pub harness_errors: Vec<Value>,
}

pub fn phase(seed: u64, processes: u64, rounds: u64) -> Phase {
    let t0 = Instant::now();
    if let Err(e) = available() {
        return Phase { coverage: json!({"status": format!("not run: {e}")}), violations: vec![], harness_errors: vec![] };
    }
    let base = derive_n(seed, "miri-seed", 0) % 1_000_000;
    let scenarios: Vec<Scenario> = (0..processes)
        .map(|i| Scenario {
            miri_seed: base + i,
            rate: RATES[i as usize % RATES.len()].to_string(),
            first: 6 * i,
            rounds,
            threads: if i % 4 == 3 { 2 } else { 3 },
        })
        .collect();
    let queue = Arc::new(Mutex::new(scenarios.clone().into_iter().enumerate().collect::<Vec<_>>()));
    let results: Arc<Mutex<Vec<Option<Outcome>>>> = Arc::new(Mutex::new((0..scenarios.len()).map(|_| None).collect()));
    let mut handles = Vec::new();
    for _ in 0..workers().min(scenarios.len()).max(1) {
        let queue = queue.clone();
        let results = results.clone();
        handles.push(std::thread::spawn(move || loop {
            let job = queue.lock().unwrap().pop();
            let Some((i, sc)) = job else { break };
            let o = run_one(&sc);
            results.lock().unwrap()[i] = Some(o);
        }));
    }
    for h in handles {
        let _ = h.join();
    }
    let results = Arc::try_unwrap(results).ok().unwrap().into_inner().unwrap();
    let mut kinds: BTreeMap<String, u64> = BTreeMap::new();
    let mut clean = 0u64;
    let mut unavailable: Vec<String> = Vec::new();
    let mut violations = Vec::new();
    let mut harness_errors = Vec::new();
    let mut per_class: BTreeMap<String, u64> = BTreeMap::new();
    for (sc, o) in scenarios.iter().zip(results) {
        match o {
            Some(Outcome::Clean(k)) => {
                clean += 1;
                for (kind, n) in k {
                    *kinds.entry(kind).or_default() += n;
                }
            }
            Some(Outcome::Violation(class, detail, round)) => {
                let n = per_class.entry(class.clone()).or_default();
                *n += 1;
                if *n > 2 {
                    continue;
                }
                let (min, trials) = minimise(sc, &class, round);
                let mut v = json!({
                    "sim": "miri", "class": class, "detail": detail, "scenario": min.to_json(), "original_scenario": sc.to_json(), "minimise_trials": trials,
                    "subject_id": format!("miri seed={} rate={} rounds={}..{} threads={}", min.miri_seed, min.rate, min.first, min.first + min.rounds, min.threads),
                });
                match confirm(&v) {
                    Ok(true) => {
                        if let Outcome::Violation(_, d, _) = run_one(&min) {
                            v["detail"] = json!(d);
                        }
                        violations.push(v)
                    }
                    Ok(false) => harness_errors.push(json!({"what": "Miri candidate did not reproduce from its seed in a fresh process", "candidate": v})),
                    Err(e) => harness_errors.push(json!({"what": "Miri replay failed", "error": e})),
                }
            }
            Some(Outcome::Unavailable(e)) => unavailable.push(e),
            None => unavailable.push("not run".into()),
        }
    }
    let rounds_done: u64 = kinds.values().sum();
    let coverage = json!({
        "status": if unavailable.is_empty() { "run".to_string() } else { format!("{} of {} processes unusable: {:.300}", unavailable.len(), scenarios.len(), unavailable[0]) },
        "engine": "Miri (cargo +nightly miri run): the crate as shipped (guard off, real std::sync::RwLock / OnceLock / atomics / lazy_static Once) on real std::thread threads; Miri's scheduler is seeded and pre-empts at basic-block granularity",
        "processes": scenarios.len(),
        "clean_processes": clean,
        "concurrent_rounds": rounds_done,
        "rounds_by_kind": kinds,
        "miri_seeds": format!("{}..{}", base, base + processes),
        "preemption_rates": RATES,
        "wall_s": t0.elapsed().as_secs_f64(),
        "rule": "one process = one Miri seed + one pre-emption rate; one round = 2-3 threads released together on one of: a shared Code (threads share no cell; each must get the sequential result), a freshly parsed Code whose first execution is concurrent, a shared Function called through the host API with per-thread arguments, shared cells under `+=` (yields must be a permutation of 1..N, content N), commuting update pairs with a concurrent renderer, two cells updated from each other plus a cell containing itself (must terminate)",
    });
    Phase { coverage, violations, harness_errors }
}
