//! Delta debugging over a list: returns a (1-)minimal sub-list for which `fails` still holds.
pub fn ddmin<T: Clone>(items: &[T], mut fails: impl FnMut(&[T]) -> bool) -> Vec<T> {
    let mut cur: Vec<T> = items.to_vec();
    let mut n = 2usize;
    while cur.len() >= 2 {
        let chunk = cur.len().div_ceil(n);
        let mut reduced = false;
        // try complements (remove one chunk)
        let mut start = 0;
        while start < cur.len() {
            let end = (start + chunk).min(cur.len());
            let cand: Vec<T> = cur[..start].iter().chain(cur[end..].iter()).cloned().collect();
            if !cand.is_empty() && fails(&cand) {
                cur = cand;
                n = n.saturating_sub(1).max(2);
                reduced = true;
                break;
            }
            start = end;
        }
        if !reduced {
            if chunk <= 1 {
                break;
            }
            n = (n * 2).min(cur.len());
        }
    }
    // final pass: try dropping each single element
    let mut i = 0;
    while i < cur.len() && cur.len() > 1 {
        let mut cand = cur.clone();
        cand.remove(i);
        if fails(&cand) {
            cur = cand;
        } else {
            i += 1;
        }
    }
    cur
}
