//! `ossim` (DESIGN §4.5 / §4.6): the standard library's OS-facing functions and `import` against a
//! simulated operating system (in-memory file tree, scripted stdin, captured stdout) with an
//! explicit fault plan keyed by seam-call index.
use crate::canon::{cerror, ctype, cvar, inhabits};
use crate::prng::{derive_n, digest, Rng};
use crate::run::{guarded, on_fresh_thread};
use serde_json::{json, Value};
use simplesl::function::Function;
use simplesl::variable::{Type, Typed, Variable};
use simplesl::{Code, Error, Interpreter};
use simplesl_verif_seams::os::{self, CallResult, FaultSpec, Mode, Node, SimOs, StdinEvent};
use std::collections::BTreeMap;
use std::sync::Arc;

pub const ERRNOS: &[(i32, &str)] = &[
    (libc::EACCES, "PermissionDenied"),
    (libc::ENOSPC, "StorageFull"),
    (libc::EROFS, "ReadOnlyFilesystem"),
    (libc::EINTR, "Interrupted"),
    (libc::EBUSY, "ResourceBusy"),
    (libc::EXDEV, "CrossesDevices"),
    (libc::EDQUOT, "QuotaExceeded"),
    (libc::EFBIG, "FileTooLarge"),
    (libc::ENAMETOOLONG, "InvalidFilename"),
    (libc::ENOMEM, "OutOfMemory"),
    (libc::EIO, "Other(EIO)"),
    (libc::ELOOP, "FilesystemLoop"),
    (libc::EMFILE, "Uncategorized(EMFILE)"),
    (libc::ETXTBSY, "ExecutableFileBusy"),
    (libc::EAGAIN, "WouldBlock"),
    (libc::ETIMEDOUT, "TimedOut"),
    (libc::ESTALE, "StaleNetworkFileHandle"),
    (libc::EPERM, "PermissionDenied(EPERM)"),
];

pub const PATHS: &[&str] = &["a", "b", "d", "d/x", "d/e", "d/e/y", "a/z", "", "./b", "d//x", "n\0ul", "m/n/o"];
pub const CONTENTS: &[&str] = &["", "hello", "multi-byte \u{2713} \u{fc}\u{1F600}", "line1\nline2\n", "x := 1"];

/// (stdlib name, seam op, argument roles)
pub const FS_FUNCS: &[(&str, &str, usize)] = &[
    ("file_read_to_string", "read_to_string", 1),
    ("write_to_file", "write", 2),
    ("copy_file", "copy", 2),
    ("remove_file", "remove_file", 1),
    ("remove_dir", "remove_dir", 1),
    ("remove_dir_all", "remove_dir_all", 1),
    ("create_dir", "create_dir", 1),
    ("create_dir_all", "create_dir_all", 1),
    ("rename", "rename", 2),
];

#[derive(Clone, Debug, PartialEq)]
pub struct Call {
    /// "fs.<name>", "io.cgetline", "io.print", "io.print_array"
    pub func: String,
    pub args: Vec<String>,
    /// true: host API (`create_call`), false: generated SimpleSL program
    pub host: bool,
}

#[derive(Clone, Debug)]
pub struct Scenario {
    pub boot_seed: u64,
    pub key_seed: u64,
    /// initial tree: (path, None = directory, Some(bytes) = file)
    pub init: Vec<(String, Option<Vec<u8>>)>,
    pub calls: Vec<Call>,
    pub faults: Vec<(usize, i32, u8)>,
    pub stdin: Vec<StdinEvent>,
    /// files that cannot be opened for writing (a state, not a fault); such scenarios only read,
    /// write and copy, and are not part of the validation against the real file system (the
    /// checks run as root, which ignores permission bits)
    pub readonly: Vec<String>,
    /// a failure that is a STATE of the system for the rest of the run (a busy mount point, a
    /// non-blocking descriptor without data, a full or read-only volume): every OS call from this
    /// OS-call index on fails with this errno - however often it is repeated
    pub sticky: Option<(usize, i32)>,
}

/// how many OS-call indices a sticky failure covers (a call that repeats a failing OS call more
/// often than STALL_CALLS times without returning is reported as `no-progress`)
pub const STICKY_SPAN: usize = 1200;
pub const STALL_CALLS: usize = 1000;
/// errnos that are plausible as states (EINTR, a transient by nature, is not among them)
pub const STICKY_ERRNOS: &[i32] = &[libc::EBUSY, libc::EAGAIN, libc::EACCES, libc::EROFS, libc::ENOSPC, libc::EIO, libc::EMFILE, libc::ETXTBSY, libc::EDQUOT, libc::ESTALE, libc::EPERM, libc::ENOMEM, libc::ETIMEDOUT];

fn stdin_json(e: &StdinEvent) -> Value {
    match e {
        StdinEvent::Line(b) => json!({"line": b}),
        StdinEvent::Eof => json!("eof"),
        StdinEvent::Err(n) => json!({"err": n}),
    }
}

fn stdin_from_json(v: &Value) -> StdinEvent {
    if v.as_str() == Some("eof") {
        return StdinEvent::Eof;
    }
    if let Some(n) = v.get("err") {
        return StdinEvent::Err(n.as_i64().unwrap() as i32);
    }
    StdinEvent::Line(v["line"].as_array().unwrap().iter().map(|b| b.as_u64().unwrap() as u8).collect())
}

impl Scenario {
    pub fn to_json(&self) -> Value {
        json!({
            "sim": "ossim", "boot_seed": self.boot_seed, "key_seed": self.key_seed,
            "init": self.init.iter().map(|(p, c)| json!([p, c])).collect::<Vec<_>>(),
            "calls": self.calls.iter().map(|c| json!({"func": c.func, "args": c.args, "host": c.host})).collect::<Vec<_>>(),
            "faults": self.faults.iter().map(|(i, e, t)| json!([i, e, t])).collect::<Vec<_>>(),
            "stdin": self.stdin.iter().map(stdin_json).collect::<Vec<_>>(),
            "readonly": self.readonly,
            "sticky": self.sticky.map(|(i, e)| json!([i, e])),
        })
    }
    pub fn from_json(v: &Value) -> Scenario {
        Scenario {
            boot_seed: v["boot_seed"].as_u64().unwrap(),
            key_seed: v["key_seed"].as_u64().unwrap(),
            init: v["init"]
                .as_array()
                .unwrap()
                .iter()
                .map(|e| {
                    (
                        e[0].as_str().unwrap().to_string(),
                        e[1].as_array().map(|b| b.iter().map(|x| x.as_u64().unwrap() as u8).collect()),
                    )
                })
                .collect(),
            calls: v["calls"]
                .as_array()
                .unwrap()
                .iter()
                .map(|c| Call {
                    func: c["func"].as_str().unwrap().to_string(),
                    args: c["args"].as_array().unwrap().iter().map(|a| a.as_str().unwrap().to_string()).collect(),
                    host: c["host"].as_bool().unwrap(),
                })
                .collect(),
            faults: v["faults"]
                .as_array()
                .unwrap()
                .iter()
                .map(|f| (f[0].as_u64().unwrap() as usize, f[1].as_i64().unwrap() as i32, f[2].as_u64().unwrap() as u8))
                .collect(),
            stdin: v["stdin"].as_array().unwrap().iter().map(stdin_from_json).collect(),
            readonly: v["readonly"].as_array().map(|a| a.iter().filter_map(|p| p.as_str().map(|s| s.to_string())).collect()).unwrap_or_default(),
            sticky: v.get("sticky").and_then(|s| s.as_array()).map(|a| (a[0].as_u64().unwrap() as usize, a[1].as_i64().unwrap() as i32)),
        }
    }
}

fn make_os(sc: &Scenario) -> SimOs {
    let mut o = SimOs::new();
    for (p, c) in &sc.init {
        o.nodes.insert(
            p.clone(),
            match c {
                None => Node::Dir,
                Some(b) => Node::File(b.clone()),
            },
        );
    }
    for (i, e, t) in &sc.faults {
        o.faults.insert(*i, FaultSpec { errno: *e, torn: *t });
    }
    if let Some((from, errno)) = sc.sticky {
        for k in from..from + STICKY_SPAN {
            o.faults.insert(k, FaultSpec { errno, torn: 0 });
        }
    }
    // a line without a final newline can only be the last thing a stream delivers: whatever the
    // script holds after it is replaced by end-of-file (a reader that asks again gets "")
    let mut stdin = Vec::new();
    for ev in &sc.stdin {
        let last = matches!(ev, StdinEvent::Line(b) if b.last() != Some(&b'\n'));
        stdin.push(ev.clone());
        if last {
            break;
        }
    }
    while stdin.len() < sc.stdin.len() {
        stdin.push(StdinEvent::Eof);
    }
    o.stdin = stdin;
    o.readonly = sc.readonly.iter().cloned().collect();
    o
}

fn lookup(interp: &Interpreter, path: &str) -> Option<Variable> {
    let mut parts = path.split('.');
    let mut cur = interp.get_variable("std")?.clone();
    for p in parts.by_ref() {
        let Variable::Struct(m) = &cur else { return None };
        cur = m.get(p)?.clone();
    }
    Some(cur)
}

fn str_lit(s: &str) -> String {
    format!("{s:?}")
}

#[derive(Default, Clone, Debug)]
pub struct RunReport {
    pub violation: Option<(String, String)>,
    pub harness_error: Option<String>,
    pub events: u64,
    pub log: Vec<String>,
    /// (function, state class, fault kind) triples reached
    pub triples: Vec<String>,
    pub faults_fired: BTreeMap<String, u64>,
    pub natural_errors: BTreeMap<String, u64>,
    pub torn_effects: u64,
    pub torn_seen_by_later_read: u64,
    pub fault_after_create: u64,
    pub lang_rejected: u64,
    pub state_digest: u64,
}

/// The documented error value: exactly the fields `error_code: int` (the kind of the OS error)
/// and `msg: string`. The TEXT of `msg` is not specified by docs/stdlib.md (only its type), so it
/// is not compared: an implementation may prefix the kind's name or drop the errno suffix.
fn error_struct_matches(v: &Variable, kind: i64, _msg: &str) -> bool {
    let Variable::Struct(m) = v else { return false };
    m.len() == 2
        && matches!(m.get("error_code"), Some(Variable::Int(k)) if *k == kind)
        && matches!(m.get("msg"), Some(Variable::String(_)))
}

fn errno_name(e: i32) -> String {
    ERRNOS.iter().find(|(n, _)| *n == e).map(|(_, s)| s.to_string()).unwrap_or_else(|| format!("errno{e}"))
}

fn state_class(os: &SimOs, path: &str) -> &'static str {
    match simplesl_verif_seams::os::norm(path) {
        Err(_) => "bad-path",
        Ok(p) => {
            if os.walk_parent(&p).is_err() {
                "parent-missing-or-file"
            } else if p.is_empty() {
                "root"
            } else {
                match os.nodes.get(&p) {
                    None => "missing",
                    Some(Node::Dir) => {
                        if os.children(&p).is_empty() {
                            "empty-dir"
                        } else {
                            "non-empty-dir"
                        }
                    }
                    Some(Node::File(b)) => {
                        if std::str::from_utf8(b).is_ok() {
                            "file"
                        } else {
                            "non-utf8-file"
                        }
                    }
                }
            }
        }
    }
}

/// Executes the scenario on the current thread with `osim` installed; checks every call.
fn execute(sc: &Scenario, osim: SimOs, rep: &mut RunReport) {
    os::install(osim);
    let interp = Interpreter::with_stdlib();
    let mut wrote: BTreeMap<String, usize> = BTreeMap::new(); // path -> call index of a torn write
    for (ci, call) in sc.calls.iter().enumerate() {
        rep.events += 1;
        let Some(Variable::Function(f)) = lookup(&interp, &call.func) else {
            rep.harness_error = Some(format!("std.{} is not a function", call.func));
            return;
        };
        let Type::Function(ft) = f.as_type() else { unreachable!() };
        let ret_t = ft.return_type.clone();
        let before = os::with(|o| (o.calls.len(), o.stdout.len(), o.next_idx)).unwrap();
        let pre_state: SimOs = os::with(|o| {
            let mut c = SimOs::new();
            c.nodes = o.nodes.clone();
            c.stdin = o.stdin.clone();
            c.stdin_pos = o.stdin_pos;
            c.readonly = o.readonly.clone();
            c
        })
        .unwrap();
        let sclass: String = call.args.first().map(|p| os::with(|o| state_class(o, p)).unwrap().to_string()).unwrap_or_else(|| "-".into());
        let args_v: Vec<Variable> = match call.func.as_str() {
            "io.print_array" => vec![
                Variable::from(call.args[..call.args.len() - 1].iter().map(|s| Variable::from(s.as_str())).collect::<Vec<_>>()),
                Variable::from(call.args[call.args.len() - 1].as_str()),
            ],
            _ => call.args.iter().map(|s| Variable::from(s.as_str())).collect(),
        };
        let text = match call.func.as_str() {
            "io.print_array" => format!(
                "std.io.print_array([{}], {})",
                call.args[..call.args.len() - 1].iter().map(|s| str_lit(s)).collect::<Vec<_>>().join(", "),
                str_lit(&call.args[call.args.len() - 1])
            ),
            _ => format!("std.{}({})", call.func, call.args.iter().map(|s| str_lit(s)).collect::<Vec<_>>().join(", ")),
        };
        let res: Result<Result<Variable, String>, String> = if call.host {
            guarded(|| match f.clone().create_call(args_v.clone()) {
                Ok(code) => code.exec().map_err(|e| format!("ExecError {e}")),
                Err(e) => Err(format!("create_call rejected: {}", cerror(&e))),
            })
        } else {
            guarded(|| match Code::parse(&interp, &text) {
                Ok(code) => code.exec().map_err(|e| format!("ExecError {e}")),
                Err(e) => Err(format!("REJECTED {}", cerror(&e))),
            })
        };
        let after = os::with(|o| (o.calls.len(), o.stdout.len())).unwrap();
        let route = if call.host { "host" } else { "lang" };
        let value = match res {
            Err(p) => {
                rep.violation = Some(("panic".into(), format!("call {ci} `{text}` via {route} API panicked: {p}")));
                return;
            }
            Ok(Err(e)) => {
                if e.starts_with("REJECTED") && !call.host {
                    // e.g. a string literal the lexer cannot unescape: not a C18 matter
                    rep.lang_rejected += 1;
                    rep.log.push(format!("{ci}: {text} [{route}] -> {e}"));
                    // the fault index (if any) was not consumed: keep the plan aligned by re-keying
                    continue;
                }
                rep.violation = Some(("raised".into(), format!("call {ci} `{text}` via {route} API raised instead of returning a value: {e}")));
                return;
            }
            Ok(Ok(v)) => v,
        };
        rep.log.push(format!("{ci}: {text} [{route}] -> {}", cvar(&value)));
        // (2) declared result type
        if !inhabits(&value, &ret_t) || !value.as_type().matches(&ret_t) {
            rep.violation = Some((
                "result-type".into(),
                format!("call {ci} `{text}` returned {} which is not a {}", cvar(&value), ctype(&ret_t)),
            ));
            return;
        }
        match call.func.as_str() {
            "io.print" | "io.print_array" => {
                let expect = if call.func == "io.print" { call.args[0].clone() } else { call.args[..call.args.len() - 1].join(&call.args[call.args.len() - 1]) };
                let lines: Vec<String> = os::with(|o| o.stdout[before.1..].iter().map(|(_, l)| l.clone()).collect()).unwrap();
                if lines != vec![expect.clone()] || value != Variable::Void || after.0 != before.0 {
                    rep.violation = Some(("print".into(), format!("call {ci} `{text}` printed {lines:?} (expected [{expect:?}]) and returned {}", cvar(&value))));
                    return;
                }
                continue;
            }
            _ => {}
        }
        // the OS calls this invocation made
        let entries: Vec<os::Call> = os::with(|o| o.calls[before.0..].to_vec()).unwrap();
        let injected: Vec<&os::Call> = entries.iter().filter(|e| e.injected).collect();
        if entries.len() >= STALL_CALLS && injected.len() >= STALL_CALLS {
            rep.violation = Some((
                "no-progress".into(),
                format!("call {ci} `{text}` repeated a failing OS call {} times ({} {:?}) instead of returning the error: against a failure that persists it never returns", injected.len(), injected[0].op, injected[0].result),
            ));
            return;
        }
        for e in &entries {
            let fault_kind = if e.injected {
                let errno = match sc.sticky {
                    Some((from, errno)) if e.idx >= from => errno,
                    _ => sc.faults.iter().find(|(i, _, _)| *i == e.idx).map(|(_, n, _)| *n).unwrap_or(0),
                };
                let n = if sc.sticky.is_some_and(|(from, _)| e.idx >= from) { format!("sticky:{}", errno_name(errno)) } else { errno_name(errno) };
                *rep.faults_fired.entry(n.clone()).or_default() += 1;
                if ci > 0 && matches!(sc.calls[ci - 1].func.as_str(), "fs.create_dir" | "fs.create_dir_all" | "fs.write_to_file" | "fs.rename" | "fs.copy_file") {
                    rep.fault_after_create += 1;
                }
                n
            } else if let CallResult::Err(_, m) = &e.result {
                let n = format!("natural:{}", m.split(" (os error").next().unwrap_or(m));
                *rep.natural_errors.entry(n.clone()).or_default() += 1;
                n
            } else {
                "none".into()
            };
            if e.torn {
                rep.torn_effects += 1;
                if let Some(p) = call.args.last() {
                    wrote.insert(p.clone(), ci);
                }
            }
            rep.triples.push(format!("{}|{}|{}", call.func, sclass, fault_kind));
        }
        let is_err_struct = matches!(&value, Variable::Struct(_));
        let success_ok = |value: &Variable, repr: &str| -> bool {
            match call.func.as_str() {
                "fs.file_read_to_string" => matches!(value, Variable::String(s) if s.as_ref() == repr),
                "io.cgetline" => {
                    let want = repr.strip_suffix('\n').unwrap_or(repr);
                    matches!(value, Variable::String(s) if s.as_ref() == want)
                }
                _ => *value == Variable::Void,
            }
        };
        // what the documented operation does to the pre-state (no fault)
        let (want_op, want_args): (String, Vec<String>) = if call.func == "io.cgetline" {
                ("stdin_read_line".into(), vec![])
            } else {
                let name = call.func.trim_start_matches("fs.");
                let f = FS_FUNCS.iter().find(|f| f.0 == name).unwrap();
                (f.1.to_string(), call.args.clone())
            };
            let mut predicted = pre_state.clone();
            let pred: Result<String, (i64, String)> = if want_op == "stdin_read_line" {
                match pre_state.stdin.get(pre_state.stdin_pos).cloned().unwrap_or(StdinEvent::Eof) {
                    StdinEvent::Eof => Ok(String::new()),
                    StdinEvent::Err(n) => {
                        let e = std::io::Error::from_raw_os_error(n);
                        Err((e.kind() as i64, e.to_string()))
                    }
                    StdinEvent::Line(b) => String::from_utf8(b).map_err(|_| (std::io::ErrorKind::InvalidData as i64, "stream did not contain valid UTF-8".to_string())),
                }
            } else {
                simplesl_verif_seams::fs::model_apply(&mut predicted, &want_op, &want_args).map_err(|e| (e.kind() as i64, e.to_string()))
            };
        // a scripted EINTR on stdin is a transient like an injected one: the call is judged by
        // the rules for calls with a fault in flight
        let transient_stdin = want_op == "stdin_read_line" && matches!(&pred, Err((k, _)) if *k == std::io::ErrorKind::Interrupted as i64);
        let as_documented = match &pred {
            // (a reported success counts as the documented one only if the file tree is the
            // documented one too)
            Ok(repr) => success_ok(&value, repr) && (want_op == "stdin_read_line" || os::with(|o| o.nodes == predicted.nodes).unwrap_or(false)),
            Err((kind, msg)) => error_struct_matches(&value, *kind, msg),
        };
        if injected.is_empty() && !transient_stdin {
            // no fault in flight: the call must do exactly what the documented operation does to
            // the pre-state - same result (value or error struct), same post-state
            match &pred {
                Ok(repr) => {
                    if !success_ok(&value, repr) {
                        rep.violation = Some((
                            "wrong-result".into(),
                            format!("call {ci} `{text}`: the documented operation {want_op}{want_args:?} succeeds with `{repr}` on this file tree, but the function returned {}", cvar(&value)),
                        ));
                        return;
                    }
                }
                Err((kind, msg)) => {
                    // EINTR is transient by nature: reading again is as legitimate as reporting it
                    // (std itself retries it in most read loops); the value is then the data of the
                    // last read of this invocation, which must have succeeded
                    if !error_struct_matches(&value, *kind, msg) {
                        rep.violation = Some((
                            "wrong-result".into(),
                            format!("call {ci} `{text}`: the documented operation {want_op}{want_args:?} fails with kind {kind} `{msg}` on this file tree, but the function returned {}", cvar(&value)),
                        ));
                        return;
                    }
                }
            }
            // the file tree is judged after a call that reported SUCCESS. What a call that
            // (correctly) reported a failure leaves behind - a partial write, a clean-up, nothing -
            // is its own business: C18 does not speak about it (negative control M18e, which removes
            // the target after any failed write, deleted an unwritable file and was reported)
            if want_op != "stdin_read_line" && !is_err_struct {
                let now = os::with(|o| o.nodes.clone()).unwrap();
                if now != predicted.nodes {
                    rep.violation = Some((
                        "wrong-effect".into(),
                        format!("call {ci} `{text}`: file tree afterwards is {now:?}, the documented operation {want_op}{want_args:?} leaves {:?}", predicted.nodes),
                    ));
                    return;
                }
            }
        } else if as_documented {
            // a fault was in flight and the call nevertheless did what the documented operation does
            // on this state (e.g. a retry after a transient, followed by the library's own check of
            // what it read): nothing to object to
        } else if is_err_struct {
            // a fault was injected: the function may fail, but only with the error of an OS call that failed
            let ok = entries.iter().any(|e| matches!(&e.result, CallResult::Err(k, m) if error_struct_matches(&value, *k, m)));
            if !ok {
                rep.violation = Some((
                    "error-struct".into(),
                    format!("call {ci} `{text}`: returned {} which is not the error of any OS call that failed ({:?})", cvar(&value), entries.iter().map(|e| &e.result).collect::<Vec<_>>()),
                ));
                return;
            }
        } else {
            // success although a fault was injected: legitimate only as a retry that succeeded - the
            // LAST OS call of the invocation must have succeeded (a failed last step reported as
            // success is a swallowed error) and returned data must be the data of that call
            let last_ok = match entries.last().map(|e| &e.result) {
                Some(CallResult::Ok(r)) => Some(r.clone()),
                _ => None,
            };
            // a line may be assembled from several reads (a buffered reader asks again until it
            // has seen a newline or end-of-file): the data of all reads that succeeded after the
            // last failure of this invocation
            let after_failure: String = entries
                .iter()
                .rev()
                .take_while(|e| matches!(e.result, CallResult::Ok(_)))
                .collect::<Vec<_>>()
                .into_iter()
                .rev()
                .filter_map(|e| match &e.result {
                    CallResult::Ok(r) => Some(r.as_str()),
                    _ => None,
                })
                .collect();
            let all_ok_reads: String = entries.iter().filter_map(|e| match &e.result {
                CallResult::Ok(r) => Some(r.as_str()),
                _ => None,
            }).collect();
            let ok = match (call.func.as_str(), last_ok) {
                ("io.cgetline", Some(r)) => success_ok(&value, &r) || success_ok(&value, &after_failure) || success_ok(&value, &all_ok_reads),
                ("fs.file_read_to_string", Some(r)) => success_ok(&value, &r) || success_ok(&value, &after_failure),
                ("fs.file_read_to_string" | "io.cgetline", None) => false,
                (_, Some(_)) => value == Variable::Void,
                (_, None) => false,
            };
            if !ok {
                rep.violation = Some((
                    "error-swallowed".into(),
                    format!("call {ci} `{text}`: the OS reported {:?} but the function returned {}", entries.iter().map(|e| &e.result).collect::<Vec<_>>(), cvar(&value)),
                ));
                return;
            }
        }
        if call.func == "fs.file_read_to_string" && wrote.contains_key(&call.args[0]) && !is_err_struct {
            rep.torn_seen_by_later_read += 1;
        }
    }
    // read-back: every path of the universe through the library, compared with the model's tree
    // (faults stop first: the plan may hold indices beyond the calls that reached the OS)
    os::with(|o| o.faults.clear());
    let Some(Variable::Function(read)) = lookup(&interp, "fs.file_read_to_string") else { return };
    for p in PATHS {
        let node = os::with(|o| match simplesl_verif_seams::os::norm(p) {
            Ok(n) if o.walk_parent(&n).is_ok() => o.nodes.get(&n).cloned(),
            _ => None,
        })
        .unwrap();
        let r = guarded(|| read.clone().create_call(vec![Variable::from(*p)]).map(|c| c.exec()));
        rep.events += 1;
        match (r, node) {
            (Err(pn), _) => {
                rep.violation = Some(("panic".into(), format!("read-back of {p:?} panicked: {pn}")));
                return;
            }
            (Ok(Ok(Ok(Variable::String(s)))), Some(Node::File(b))) if std::str::from_utf8(&b).ok() == Some(s.as_ref()) => {}
            (Ok(Ok(Ok(v))), Some(Node::File(b))) if std::str::from_utf8(&b).is_ok() => {
                rep.violation = Some(("read-back".into(), format!("file {p:?} holds {:?} but file_read_to_string returns {}", String::from_utf8_lossy(&b), cvar(&v))));
                return;
            }
            (Ok(Ok(Ok(Variable::Struct(_)))), _) => {}
            (Ok(Ok(Ok(v))), n) => {
                rep.violation = Some(("read-back".into(), format!("path {p:?} is {n:?} but file_read_to_string returns {}", cvar(&v))));
                return;
            }
            (Ok(other), _) => {
                rep.violation = Some(("raised".into(), format!("read-back of {p:?} raised: {:?}", other.map(|r| r.map(|v| cvar(&v))).map_err(|e| cerror(&e)))));
                return;
            }
        }
    }
    let final_os = os::uninstall().unwrap();
    rep.state_digest = digest(&format!("{:?}", final_os.nodes));
}

pub fn run_scenario(sc: &Scenario) -> RunReport {
    crate::run::note_current(|| sc.to_json());
    let sc = sc.clone();
    let r = on_fresh_thread(sc.key_seed, move || {
        let mut rep = RunReport::default();
        let osim = make_os(&sc);
        execute(&sc, osim, &mut rep);
        os::uninstall();
        rep
    });
    r.unwrap_or_else(|p| RunReport { harness_error: Some(format!("run thread panicked: {p}")), ..Default::default() })
}

// ---------------------------------------------------------------------------------------------
// model validation against the real file system (fault-free sequences)

fn materialise(root: &std::path::Path, init: &[(String, Option<Vec<u8>>)]) -> std::io::Result<()> {
    let mut v: Vec<_> = init.to_vec();
    v.sort();
    for (p, c) in v {
        let full = root.join(&p);
        match c {
            None => std::fs::create_dir_all(&full)?,
            Some(b) => {
                if let Some(par) = full.parent() {
                    std::fs::create_dir_all(par)?;
                }
                std::fs::write(&full, b)?;
            }
        }
    }
    Ok(())
}

fn walk_real(root: &std::path::Path, rel: &str, out: &mut BTreeMap<String, Node>) {
    let dir = if rel.is_empty() { root.to_path_buf() } else { root.join(rel) };
    let Ok(rd) = std::fs::read_dir(dir) else { return };
    for e in rd.flatten() {
        let name = e.file_name().to_string_lossy().into_owned();
        let p = if rel.is_empty() { name } else { format!("{rel}/{name}") };
        if e.file_type().map(|t| t.is_dir()).unwrap_or(false) {
            out.insert(p.clone(), Node::Dir);
            walk_real(root, &p, out);
        } else {
            out.insert(p.clone(), Node::File(std::fs::read(e.path()).unwrap_or_default()));
        }
    }
}

/// Runs the (fault-free) call sequence against the model and against real std::fs in a scratch
/// directory; returns a description of the first difference.
pub fn validate_model(sc: &Scenario, scratch: &std::path::Path) -> Result<u64, String> {
    if !sc.readonly.is_empty() {
        return Ok(0);
    }
    let mut plain = sc.clone();
    plain.faults.clear();
    plain.calls.retain(|c| c.func.starts_with("fs."));
    let scratch = scratch.to_path_buf();
    on_fresh_thread(sc.key_seed, move || -> Result<u64, String> {
        type Rec = (String, Vec<String>, CallResult);
        os::install(make_os(&plain));
        execute_calls_only(&plain);
        let sim = os::uninstall().unwrap();
        // calls on an open handle (write / read / sync of a `fs::File`) are logged by the simulated
        // file only; the comparison is over the calls that name a path, plus the final tree
        let by_path = |c: &&os::Call| !matches!(c.op, "file_write" | "file_read" | "fsync" | "fdatasync" | "ftruncate");
        let sim_calls: Vec<Rec> = sim.calls.iter().filter(by_path).map(|c| (c.op.to_string(), c.args.clone(), c.result.clone())).collect();
        let _ = std::fs::remove_dir_all(&scratch);
        std::fs::create_dir_all(&scratch).map_err(|e| e.to_string())?;
        materialise(&scratch, &plain.init).map_err(|e| format!("materialise: {e}"))?;
        os::install(SimOs::real(scratch.clone()));
        execute_calls_only(&plain);
        let real = os::uninstall().unwrap();
        let mut real_tree = BTreeMap::new();
        walk_real(&scratch, "", &mut real_tree);
        let _ = std::fs::remove_dir_all(&scratch);
        let real_calls: Vec<Rec> = real.calls.iter().filter(by_path).map(|c| (c.op.to_string(), c.args.clone(), c.result.clone())).collect();
        for (i, (s, r)) in sim_calls.iter().zip(real_calls.iter()).enumerate() {
            if s != r {
                return Err(format!("call {i}: model says {s:?}, real std::fs says {r:?}; init {:?}; calls {:?}", plain.init, plain.calls));
            }
        }
        if sim.nodes != real_tree {
            return Err(format!("final tree differs: model {:?} real {real_tree:?}; init {:?}; calls {:?}", sim.nodes, plain.init, plain.calls));
        }
        Ok(sim_calls.len() as u64)
    })
    .map_err(|p| format!("validation thread panicked: {p}"))?
}

/// Host-route calls without any checking (used for model validation).
fn execute_calls_only(sc: &Scenario) {
    let interp = Interpreter::with_stdlib();
    for call in &sc.calls {
        let Some(Variable::Function(f)) = lookup(&interp, &call.func) else { continue };
        let args: Vec<Variable> = call.args.iter().map(|s| Variable::from(s.as_str())).collect();
        let _ = guarded(|| f.clone().create_call(args).map(|c| c.exec()));
    }
}

// ---------------------------------------------------------------------------------------------
// the library UNHOOKED in a real scratch directory ("ossim-real")
//
// The simulated OS only sees what goes through the seams. Code that reaches the operating system
// some other way (`Path::read_dir`, `Path::canonicalize`, `env::current_dir`, `env::var` ...) is
// invisible there. These runs install no simulated OS at all: the seams pass through to std, the
// process changes into a scratch directory holding the scenario's initial tree, and the library is
// called with the paths as they are. Plain worlds are judged against the simulated run of the same
// calls (values, error kinds, final tree: the model and the real thing must agree THROUGH the
// library, not only at the seams). Odd worlds add what the model cannot hold - entry names that
// are not UTF-8, symbolic links (to itself, to nothing, to a directory, to a file), a working
// directory that has been removed - and are judged for panics, raised errors and declared types only.

pub const REAL_LINKS: &[&str] = &["lnloop", "dang", "lnd", "lnf", "lnd/x"];

/// paths a call of a real run may name: nothing absolute, nothing with `..` (except as the source
/// of a copy or the file of a read, which only read)
fn real_safe(call: &Call) -> bool {
    call.func.starts_with("fs.")
        && call.args.iter().enumerate().all(|(i, a)| {
            let odd = a.starts_with('/') || a.split('/').any(|c| c == "..");
            !odd || (i == 0 && matches!(call.func.as_str(), "fs.copy_file" | "fs.file_read_to_string"))
        })
}

fn real_value_class(v: &Variable) -> String {
    if let Variable::Struct(m) = v {
        if let (Some(Variable::Int(k)), Some(Variable::String(_)), 2) = (m.get("error_code"), m.get("msg"), m.len()) {
            return format!("ERR({k})");
        }
    }
    cvar(v)
}

pub fn run_real(sc: &Scenario, extras: u8) -> RunReport {
    crate::run::note_current(|| {
        let mut j = sc.to_json();
        j["sim"] = json!("ossim-real");
        j["extras"] = json!(extras);
        j
    });
    let mut sc = sc.clone();
    sc.faults.clear();
    sc.sticky = None;
    sc.readonly.clear();
    sc.calls.retain(real_safe);
    let r = on_fresh_thread(sc.key_seed, move || {
        let mut rep = RunReport::default();
        let mut rng = Rng::new(sc.key_seed ^ 0x5ea1);
        if extras & 2 != 0 {
            // some calls name the links
            for c in sc.calls.iter_mut() {
                for a in c.args.iter_mut() {
                    if !a.is_empty() && !a.starts_with('/') && !a.contains("..") && !a.contains('\0') && rng.chance(1, 4) {
                        *a = REAL_LINKS[rng.below(REAL_LINKS.len())].to_string();
                    }
                }
            }
        }
        if extras & 1 != 0 {
            // odd names are met by whatever lists a directory: every directory of the tree is also
            // removed (deepest first) and copied from at the end of the run
            let mut dirs: Vec<String> = sc.init.iter().filter(|(_, c)| c.is_none()).map(|(p, _)| p.clone()).collect();
            dirs.sort_by_key(|d| std::cmp::Reverse(d.matches('/').count()));
            for d in dirs {
                sc.calls.push(Call { func: "fs.copy_file".into(), args: vec![d.clone(), "zz_copy".into()], host: true });
                sc.calls.push(Call { func: "fs.remove_dir".into(), args: vec![d.clone()], host: true });
                sc.calls.push(Call { func: "fs.rename".into(), args: vec![d.clone(), format!("{d}_moved")], host: true });
            }
        }
        // reference: the same calls against the simulated file system
        let mut reference: Vec<String> = Vec::new();
        let mut sim_tree = BTreeMap::new();
        if extras == 0 {
            os::install(make_os(&sc));
            let interp = Interpreter::with_stdlib();
            for call in &sc.calls {
                let Some(Variable::Function(f)) = lookup(&interp, &call.func) else { continue };
                let args: Vec<Variable> = call.args.iter().map(|s| Variable::from(s.as_str())).collect();
                reference.push(match guarded(|| f.clone().create_call(args).map(|c| c.exec())) {
                    Ok(Ok(Ok(v))) => real_value_class(&v),
                    other => format!("{:?}", other.map(|r| r.map(|r| r.map(|_| ()).map_err(|e| e.to_string())).map_err(|e| cerror(&e)))),
                });
            }
            sim_tree = os::uninstall().map(|o| o.nodes).unwrap_or_default();
        }
        os::uninstall();
        let scratch = std::env::temp_dir().join(format!("verif-real-{}", std::process::id()));
        let _ = std::fs::remove_dir_all(&scratch);
        let setup = (|| -> std::io::Result<()> {
            std::fs::create_dir_all(&scratch)?;
            materialise(&scratch, &sc.init)?;
            if extras & 1 != 0 {
                use std::os::unix::ffi::OsStrExt;
                let odd = std::ffi::OsStr::from_bytes(b"caf\xe9.txt");
                let mut dirs: Vec<std::path::PathBuf> = vec![scratch.clone()];
                dirs.extend(sc.init.iter().filter(|(_, c)| c.is_none()).map(|(p, _)| scratch.join(p)));
                for d in dirs {
                    if rng.chance(2, 3) {
                        std::fs::write(d.join(odd), b"x")?;
                    }
                }
                let odd_dir = scratch.join(std::ffi::OsStr::from_bytes(b"d\xff"));
                std::fs::create_dir_all(&odd_dir)?;
                std::fs::write(odd_dir.join("inner"), b"y")?;
            }
            if extras & 2 != 0 {
                let _ = std::os::unix::fs::symlink("lnloop", scratch.join("lnloop"));
                let _ = std::os::unix::fs::symlink("nowhere", scratch.join("dang"));
                let _ = std::os::unix::fs::symlink("d", scratch.join("lnd"));
                let _ = std::os::unix::fs::symlink("a", scratch.join("lnf"));
            }
            if extras & 4 != 0 {
                let gone = scratch.join("gone");
                std::fs::create_dir_all(&gone)?;
                std::env::set_current_dir(&gone)?;
                std::fs::remove_dir(&gone)?;
            } else {
                std::env::set_current_dir(&scratch)?;
            }
            Ok(())
        })();
        if let Err(e) = setup {
            crate::boot::enter_private_cwd();
            let _ = std::fs::remove_dir_all(&scratch);
            rep.harness_error = Some(format!("real scratch directory could not be prepared: {e}"));
            return rep;
        }
        let interp = Interpreter::with_stdlib();
        let prefix = format!("{}/", scratch.to_string_lossy());
        for (ci, call) in sc.calls.iter().enumerate() {
            rep.events += 1;
            let Some(Variable::Function(f)) = lookup(&interp, &call.func) else { continue };
            let Type::Function(ft) = f.as_type() else { unreachable!() };
            let ret_t = ft.return_type.clone();
            // without a working directory relative names resolve nowhere: address the tree absolutely
            let args: Vec<String> = call.args.iter().map(|a| if extras & 4 != 0 && !a.is_empty() && !a.starts_with('/') && !a.contains('\0') && rng.chance(2, 3) { format!("{prefix}{a}") } else { a.clone() }).collect();
            let shown: Vec<String> = args.iter().map(|a| a.replace(&prefix, "<scratch>/")).collect();
            let text = format!("std.{}({})", call.func, shown.iter().map(|s| str_lit(s)).collect::<Vec<_>>().join(", "));
            let args_v: Vec<Variable> = args.iter().map(|s| Variable::from(s.as_str())).collect();
            let value = match guarded(|| f.clone().create_call(args_v).map(|c| c.exec())) {
                Err(p) => {
                    rep.violation = Some(("panic".into(), format!("call {ci} `{text}` in a real directory (world: {}) panicked: {}", world_name(extras), p.replace(&prefix, "<scratch>/"))));
                    break;
                }
                Ok(Err(e)) => {
                    rep.violation = Some(("raised".into(), format!("call {ci} `{text}` in a real directory was rejected by the host API: {}", cerror(&e))));
                    break;
                }
                Ok(Ok(Err(e))) => {
                    rep.violation = Some(("raised".into(), format!("call {ci} `{text}` in a real directory raised instead of returning a value: {e}")));
                    break;
                }
                Ok(Ok(Ok(v))) => v,
            };
            let class = real_value_class(&value);
            rep.log.push(format!("{ci}: {text} -> {}", if class.starts_with("ERR(") { class.clone() } else { cvar(&value).replace(&prefix, "<scratch>/") }));
            if !inhabits(&value, &ret_t) || !value.as_type().matches(&ret_t) {
                rep.violation = Some(("result-type".into(), format!("call {ci} `{text}` in a real directory returned {} which is not a {}", cvar(&value), ctype(&ret_t))));
                break;
            }
            if extras == 0 && reference.get(ci) != Some(&class) {
                rep.violation = Some((
                    "real-differs".into(),
                    format!("call {ci} `{text}`: against the real file system the library returned {class}, against the simulated one {} (same initial tree, same calls, no fault)", reference.get(ci).cloned().unwrap_or_default()),
                ));
                break;
            }
        }
        crate::boot::enter_private_cwd();
        if extras == 0 && rep.violation.is_none() {
            let mut real_tree = BTreeMap::new();
            walk_real(&scratch, "", &mut real_tree);
            if real_tree != sim_tree {
                rep.violation = Some(("real-differs".into(), format!("after the calls the real directory holds {:?}, the simulated one {:?}", real_tree.keys().collect::<Vec<_>>(), sim_tree.keys().collect::<Vec<_>>())));
            }
        }
        let _ = std::fs::remove_dir_all(&scratch);
        rep.state_digest = digest(&format!("{:?}", rep.log));
        rep
    });
    r.unwrap_or_else(|p| {
        crate::boot::enter_private_cwd();
        RunReport { harness_error: Some(format!("run thread panicked: {p}")), ..Default::default() }
    })
}

pub fn world_name(extras: u8) -> String {
    if extras == 0 {
        return "plain".into();
    }
    let mut v = Vec::new();
    if extras & 1 != 0 {
        v.push("non-UTF-8 names");
    }
    if extras & 2 != 0 {
        v.push("symbolic links");
    }
    if extras & 4 != 0 {
        v.push("working directory removed");
    }
    v.join(" + ")
}

// ---------------------------------------------------------------------------------------------
// fixed table: every other export once per run with boundary arguments (workload, not search)

fn boundary_values(t: &Type, rng: &mut Rng, iters: &BTreeMap<String, Variable>) -> Option<Variable> {
    Some(match t {
        Type::Int => Variable::Int(*rng.pick(&[0i64, 1, -1, 2, 63, 64, 255, 256, i64::MAX, i64::MIN, i64::MIN + 1, -255, 1 << 32, 10])),
        Type::Float => Variable::Float(*rng.pick(&[0.0f64, -0.0, 1.0, -1.5, f64::NAN, f64::INFINITY, f64::NEG_INFINITY, f64::MAX, f64::MIN_POSITIVE, 5e-324, 1e308, 9.2e18, -9.3e18, 0.5, 1.0 + f64::EPSILON, 1.0 + 4.0 * f64::EPSILON, -1.0 - f64::EPSILON, 1.0 - f64::EPSILON / 2.0, -1.0, 0.9999999999999999, 2.0, -0.5])),
        Type::Bool => Variable::Bool(rng.chance(1, 2)),
        Type::String => Variable::from(*rng.pick(&["", " ", "abc", "  padded \t\n", "\u{df}\u{130}\u{1F600}", "12", "-7", "1e5", "a,b,,c", "\0", "NaN", "9223372036854775808", "-9223372036854775808", "-9223372036854775809", "--5", "-+5", "+-5", "-", "+", "+5", " 5", "1_000", "0x10", "-0", "inf", ".5", "5.", "\u{a0}x\u{a0}", "aXbXc", "X", "\u{feff}x\u{feff}", " \u{feff} y", "\u{200b}z\u{200b}", "\u{2028}w\u{3000}"])),
        Type::Void => Variable::Void,
        Type::Any => {
            // values of every shape, incl. cells that are reachable from themselves
            let anys: Vec<&Variable> = iters.iter().filter(|(k, _)| k.starts_with("__any")).map(|(_, v)| v).collect();
            if anys.is_empty() {
                Variable::Int(7)
            } else {
                anys[rng.below(anys.len())].clone()
            }
        }
        Type::Array(e) => match e.as_ref() {
            Type::Int => Variable::from(rng.pick(&[vec![], vec![104i64, 105], vec![255, 256, -1, i64::MAX], vec![0xf0, 0x9f, 0x98, 0x80], vec![0xff]]).iter().map(|i| Variable::Int(*i)).collect::<Vec<_>>()),
            _ => Variable::from(rng.pick(&[vec![], vec![Variable::Int(1), Variable::from("a")], vec![Variable::Float(f64::NAN)]]).clone()),
        },
        Type::Multi(m) => {
            let mut ms: Vec<&Type> = m.iter().collect();
            ms.sort_by_key(|t| ctype(t));
            let pick = ms[rng.below(ms.len())];
            return boundary_values(pick, rng, iters);
        }
        Type::Function(_) => iters.get(&ctype(t))?.clone(),
        _ => return None,
    })
}

/// Statements of docs/stdlib.md about the DOMAIN of float functions ("NaN if `num` is outside the
/// range [-1, 1]", "NaN when negative, negative infinity when zero"): only NaN-ness and
/// infinities are judged, never the last digit of a result.
fn documented_domain(name: &str, args: &[Variable], val: &Variable) -> Option<String> {
    let (Some(Variable::Float(x)), Variable::Float(r)) = (args.first(), val) else { return None };
    let (x, r) = (*x, *r);
    match name {
        "math.asin" | "math.acos" => {
            let outside = x.is_nan() || x.abs() > 1.0;
            (outside != r.is_nan()).then(|| format!("is {r:?} for {x:?}; documented: NaN exactly when the argument is outside [-1, 1]"))
        }
        "math.ln" | "math.log2" | "math.log10" => {
            if x < 0.0 && !r.is_nan() {
                Some(format!("is {r:?} for the negative argument {x:?}; documented: NaN"))
            } else if x == 0.0 && r != f64::NEG_INFINITY {
                Some(format!("is {r:?} for zero; documented: negative infinity"))
            } else if x > 0.0 && x.is_finite() && !r.is_finite() {
                Some(format!("is {r:?} for the positive finite argument {x:?}"))
            } else {
                None
            }
        }
        "math.ln_1p" => {
            if x < -1.0 && !r.is_nan() {
                Some(format!("is {r:?} for {x:?} < -1; documented: NaN"))
            } else if x == -1.0 && r != f64::NEG_INFINITY {
                Some(format!("is {r:?} for -1; documented: negative infinity"))
            } else {
                None
            }
        }
        "math.is_nan" => None,
        _ => None,
    }
}

/// What docs/stdlib.md states for the pure helpers, for the argument shapes where the statement is
/// unambiguous (None = no prediction). A sample oracle: the documented values of pure functions
/// are functions of their inputs; this table only makes the seeded boundary sample meaningful.
fn reference(name: &str, args: &[Variable]) -> Option<Variable> {
    let int = |i: usize| match args.get(i) {
        Some(Variable::Int(x)) => Some(*x),
        _ => None,
    };
    let flt = |i: usize| match args.get(i) {
        Some(Variable::Float(x)) => Some(*x),
        _ => None,
    };
    let st = |i: usize| match args.get(i) {
        Some(Variable::String(x)) => Some(x.to_string()),
        _ => None,
    };
    let strs = |v: Vec<String>| Variable::from(v.into_iter().map(Variable::from).collect::<Vec<Variable>>());
    let opt_u32 = |o: Option<u32>| o.map(|x| Variable::Int(x as i64)).unwrap_or(Variable::Void);
    Some(match name {
        "len" => match args.first()? {
            Variable::String(s) => Variable::Int(s.chars().count() as i64),
            Variable::Array(a) => Variable::Int(a.len() as i64),
            _ => return None,
        },
        "math.count_ones" => Variable::Int(int(0)?.count_ones() as i64),
        "math.count_zeros" => Variable::Int(int(0)?.count_zeros() as i64),
        "math.leading_zeros" | "math.leading_zeroes" => Variable::Int(int(0)?.leading_zeros() as i64),
        "math.trailing_zeros" | "math.trailing_zeroes" => Variable::Int(int(0)?.trailing_zeros() as i64),
        "math.leading_ones" => Variable::Int(int(0)?.leading_ones() as i64),
        "math.trailing_ones" => Variable::Int(int(0)?.trailing_ones() as i64),
        "math.swap_bytes" => Variable::Int(int(0)?.swap_bytes()),
        "math.reverse_bits" => Variable::Int(int(0)?.reverse_bits()),
        "math.ilog2" => opt_u32(int(0)?.checked_ilog2()),
        "math.ilog10" => opt_u32(int(0)?.checked_ilog10()),
        "math.ilog" => opt_u32(int(0)?.checked_ilog(int(1)?)),
        "math.floor" => Variable::Float(flt(0)?.floor()),
        "math.ceil" => Variable::Float(flt(0)?.ceil()),
        "math.round" => Variable::Float(flt(0)?.round()),
        "math.round_ties_even" => Variable::Float(flt(0)?.round_ties_even()),
        "math.trunc" => Variable::Float(flt(0)?.trunc()),
        "string.split" => strs(st(0)?.split(st(1)?.as_str()).map(|x| x.to_string()).collect()),
        "string.replace" => Variable::from(st(0)?.replace(st(1)?.as_str(), st(2)?.as_str())),
        "string.contains" => Variable::Bool(st(0)?.contains(st(1)?.as_str())),
        "string.starts_with" => Variable::Bool(st(0)?.starts_with(st(1)?.as_str())),
        "string.ends_with" => Variable::Bool(st(0)?.ends_with(st(1)?.as_str())),
        "string.chars" => strs(st(0)?.chars().map(|c| c.to_string()).collect()),
        "string.bytes" => Variable::from(st(0)?.bytes().map(|b| Variable::Int(b as i64)).collect::<Vec<Variable>>()),
        "string.to_lowercase" => Variable::from(st(0)?.to_lowercase()),
        "string.to_uppercase" => Variable::from(st(0)?.to_uppercase()),
        "string.trim" => Variable::from(st(0)?.trim().to_string()),
        "string.trim_start" => Variable::from(st(0)?.trim_start().to_string()),
        "string.trim_end" => Variable::from(st(0)?.trim_end().to_string()),
        "string.str_from_utf8" | "string.str_from_utf8_lossy" => {
            let Variable::Array(a) = args.first()? else { return None };
            let mut bytes = Vec::new();
            for e in a.iter() {
                match e {
                    Variable::Int(x) if (0..=255).contains(x) => bytes.push(*x as u8),
                    _ => return None, // elements that are not bytes: the documentation is silent
                }
            }
            if name.ends_with("lossy") {
                Variable::from(String::from_utf8_lossy(&bytes).into_owned())
            } else {
                match String::from_utf8(bytes) {
                    Ok(s) => Variable::from(s),
                    Err(_) => Variable::Void,
                }
            }
        }
        // "Parses string as int / float ... () otherwise": claimed only where "an int" leaves no
        // room - an optional sign followed by decimal digits (the value, or () when it does not
        // fit) and texts without any digit (()). What else an implementation accepts (prefixes,
        // separators, blanks) is not specified.
        "convert.parse_int" => {
            let t = st(0)?;
            let body = t.strip_prefix(['+', '-']).unwrap_or(&t);
            if !body.is_empty() && body.bytes().all(|b| b.is_ascii_digit()) {
                t.parse::<i64>().map(Variable::Int).unwrap_or(Variable::Void)
            } else if !t.chars().any(|c| c.is_ascii_digit()) {
                Variable::Void
            } else {
                return None;
            }
        }
        "convert.parse_float" => {
            let t = st(0)?;
            let body = t.strip_prefix(['+', '-']).unwrap_or(&t);
            let plain = !body.is_empty() && body.bytes().all(|b| b.is_ascii_digit() || b == b'.') && body.bytes().filter(|b| *b == b'.').count() <= 1 && body.bytes().any(|b| b.is_ascii_digit());
            if plain {
                t.parse::<f64>().map(Variable::Float).unwrap_or(Variable::Void)
            } else if !t.chars().any(|c| c.is_ascii_digit()) && !["inf", "nan", "infinity"].contains(&t.trim_start_matches(['+', '-']).to_ascii_lowercase().as_str()) {
                Variable::Void
            } else {
                return None;
            }
        }
        "convert.to_float" => match args.first()? {
            Variable::Int(x) => Variable::Float(*x as f64),
            Variable::Float(x) => Variable::Float(*x),
            _ => return None,
        },
        "convert.to_int" => match args.first()? {
            Variable::Int(x) => Variable::Int(*x),
            Variable::Float(x) if x.is_finite() && x.abs() < 9.0e18 => Variable::Int(x.trunc() as i64),
            _ => return None,
        },
        "convert.to_string" => match args.first()? {
            Variable::Int(x) => Variable::from(x.to_string()),
            Variable::String(x) => Variable::from(x.to_string()),
            Variable::Bool(x) => Variable::from(x.to_string()),
            _ => return None,
        },
        _ => return None,
    })
}

fn walk_exports(prefix: &str, v: &Variable, out: &mut Vec<(String, Variable)>) {
    if let Variable::Struct(m) = v {
        let mut keys: Vec<_> = m.keys().cloned().collect();
        keys.sort();
        for k in keys {
            let name = if prefix.is_empty() { k.to_string() } else { format!("{prefix}.{k}") };
            walk_exports(&name, &m[&k], out);
        }
    } else {
        out.push((prefix.to_string(), v.clone()));
    }
}

/// Calls every export that is not OS-facing with seeded boundary arguments; constants are checked
/// against their declared (documented) types.
pub fn run_table(key_seed: u64, arg_seed: u64) -> RunReport {
    crate::run::note_current(|| json!({"sim": "ossim-table", "boot_seed": crate::boot::current(), "key_seed": key_seed, "arg_seed": arg_seed}));
    let r = on_fresh_thread(key_seed, move || {
        let mut rep = RunReport::default();
        os::install(SimOs::new());
        let interp = Interpreter::with_stdlib();
        let mut rng = Rng::new(arg_seed);
        let mut iters: BTreeMap<String, Variable> = BTreeMap::new();
        for (ty, src) in [
            ("()->(bool,int)", "[3, -1, 9223372036854775807, 2]~"),
            ("()->(bool,float)", "[1.5, -0.0, 1e308, 1e308]~"),
            ("()->(bool,bool)", "[true, false, true]~"),
            ("()->(bool,string)", "[\"a\", \"\", \"\u{df}\"]~"),
        ] {
            if let Ok(Ok(v)) = Code::parse(&interp, src).map(|c| c.exec()) {
                iters.insert(ty.to_string(), v);
            }
        }
        for (i, src) in [
            "7",
            "\"s\"",
            "[[1, [2, [3, [4, [5, [6, [7]]]]]]]]",
            "(1, (2.5, \"x\"))",
            "struct{a := 1, b := [struct{c := 2}]}",
            "std.len",
            "mut 5",
            "{ m := mut any 0; m = m; m }",
            "{ n := mut any 0; n = struct{next := n}; n }",
            "{ p := mut any 0; p = (p, [p]); p }",
            "{ q := mut any 0; r := mut any q; q = r; [q, r] }",
        ]
        .iter()
        .enumerate()
        {
            if let Ok(Ok(v)) = Code::parse(&interp, src).map(|c| c.exec()) {
                iters.insert(format!("__any{i:02}"), v);
            }
        }
        let mut exports = Vec::new();
        walk_exports("", interp.get_variable("std").unwrap(), &mut exports);
        for (name, v) in exports {
            rep.events += 1;
            match &v {
                Variable::Function(f) => {
                    if name.starts_with("fs.") || name.starts_with("io.") {
                        continue;
                    }
                    let Type::Function(ft) = f.as_type() else { continue };
                    let args: Option<Vec<Variable>> = ft.params.iter().map(|p| boundary_values(p, &mut rng, &iters)).collect();
                    let Some(args) = args else {
                        rep.log.push(format!("{name}: no boundary value for a parameter of {}", ctype(&f.as_type())));
                        continue;
                    };
                    let shown: Vec<String> = args.iter().map(cvar).collect();
                    let r = guarded(|| f.clone().create_call(args.clone()).map(|c| c.exec()));
                    match r {
                        Err(p) => {
                            rep.violation = Some(("panic".into(), format!("std.{name}({}) panicked: {p}", shown.join(", "))));
                            return rep;
                        }
                        Ok(Err(e)) => {
                            rep.violation = Some(("rejected".into(), format!("std.{name}({}) rejected arguments of its declared parameter types: {}", shown.join(", "), cerror(&e))));
                            return rep;
                        }
                        Ok(Ok(Err(e))) => {
                            // documented runtime errors are values of the call, not violations of C18
                            rep.log.push(format!("std.{name}({}) -> ExecError {e}", shown.join(", ")));
                        }
                        Ok(Ok(Ok(val))) => {
                            rep.triples.push(format!("{name}|table|none"));
                            if let Some(want) = reference(&name, &args) {
                                if cvar(&want) != cvar(&val) {
                                    rep.violation = Some((
                                        "documented-value".into(),
                                        format!("std.{name}({}) returned {} but docs/stdlib.md describes {}", shown.join(", "), cvar(&val), cvar(&want)),
                                    ));
                                    return rep;
                                }
                                rep.triples.push(format!("{name}|reference|none"));
                            }
                            if let Some(msg) = documented_domain(&name, &args, &val) {
                                rep.violation = Some(("documented-value".into(), format!("std.{name}({}) {msg}", shown.join(", "))));
                                return rep;
                            }
                            if !inhabits(&val, &ft.return_type) || !val.as_type().matches(&ft.return_type) {
                                rep.violation = Some((
                                    "result-type".into(),
                                    format!("std.{name}({}) returned {} which is not a {}", shown.join(", "), cvar(&val), ctype(&ft.return_type)),
                                ));
                                return rep;
                            }
                        }
                    }
                }
                constant => {
                    let want = match name.as_str() {
                        "math.MIN_INT" | "math.MAX_INT" => Some(Type::Int),
                        "math.E" | "math.PI" => Some(Type::Float),
                        _ => None,
                    };
                    if let Some(w) = want {
                        if !inhabits(constant, &w) {
                            rep.violation = Some(("constant-type".into(), format!("std.{name} is {} but documented as {}", cvar(constant), ctype(&w))));
                            return rep;
                        }
                    }
                }
            }
        }
        os::uninstall();
        rep
    });
    r.unwrap_or_else(|p| RunReport { harness_error: Some(format!("run thread panicked: {p}")), ..Default::default() })
}

// ---------------------------------------------------------------------------------------------
// workload generation

pub fn gen(seed: u64, boot_seed: u64, run: u64, faulty: bool) -> Scenario {
    let mut rng = Rng::new(derive_n(seed, "c18-workload", run));
    let key_seed = derive_n(seed, "c18-keys", run);
    // initial tree
    let mut init: Vec<(String, Option<Vec<u8>>)> = Vec::new();
    let file = |rng: &mut Rng| -> Vec<u8> {
        if rng.chance(1, 8) {
            vec![0xff, 0xfe, b'x']
        } else {
            CONTENTS[rng.below(CONTENTS.len())].as_bytes().to_vec()
        }
    };
    match rng.below(3) {
        0 => init.push(("a".into(), Some(file(&mut rng)))),
        1 => init.push(("a".into(), None)),
        _ => {}
    }
    if rng.chance(1, 2) {
        init.push(("b".into(), Some(file(&mut rng))));
    }
    if rng.chance(2, 3) {
        init.push(("d".into(), None));
        if rng.chance(1, 2) {
            init.push(("d/x".into(), Some(file(&mut rng))));
        }
        if rng.chance(1, 2) {
            init.push(("d/e".into(), None));
            if rng.chance(1, 2) {
                init.push(("d/e/y".into(), Some(file(&mut rng))));
            }
        }
    }
    let n = 1 + rng.below(8);
    let mut calls = Vec::new();
    let mut stdin = Vec::new();
    for _ in 0..n {
        let host = rng.chance(1, 2);
        // (the dot paths of the special copy_file case below are never re-used by other calls)
        let last_path: Option<String> = calls.last().and_then(|c: &Call| c.args.first().cloned()).filter(|p| !matches!(p.as_str(), "." | ".." | "/"));
        let path = |rng: &mut Rng| {
            // faults need in-flight state: often stay on the path the previous call touched
            if let (Some(p), true) = (&last_path, rng.chance(1, 3)) {
                return p.clone();
            }
            if rng.chance(1, 60) {
                "n".repeat(300)
            } else if rng.chance(1, 40) {
                // long names of multi-byte characters (2-, 3- and 4-byte ones at every alignment),
                // 70-130 bytes: well below NAME_MAX
                let ch = ["\u{df}", "\u{2713}", "\u{1F600}"][rng.below(3)];
                format!("{}{}", "x".repeat(rng.below(4)), ch.repeat(70 / ch.len() + rng.below(12)))
            } else {
                PATHS[rng.below(PATHS.len())].to_string()
            }
        };
        let k = rng.below(100);
        if k < 8 {
            calls.push(Call { func: "io.cgetline".into(), args: vec![], host });
            stdin.push(match rng.below(10) {
                8 => StdinEvent::Line("trailing blanks  \t\n".as_bytes().to_vec()),
                9 => StdinEvent::Line([" \n", "wide\u{3000}\n", "\t", "nbsp\u{a0}\n"][rng.below(4)].as_bytes().to_vec()),
                0 => StdinEvent::Eof,
                1 => StdinEvent::Err(ERRNOS[rng.below(ERRNOS.len())].0),
                2 => StdinEvent::Line(vec![0xff, b'a', b'\n']),
                3 => StdinEvent::Line("no newline at eof".as_bytes().to_vec()),
                4 => StdinEvent::Line("cr lf\r\n".as_bytes().to_vec()),
                5 => StdinEvent::Line("\n".as_bytes().to_vec()),
                _ => StdinEvent::Line(format!("{}\n", CONTENTS[[1usize, 2, 4][rng.below(3)]]).into_bytes()),
            });
        } else if k < 12 {
            calls.push(Call { func: "io.print".into(), args: vec![CONTENTS[rng.below(3)].to_string()], host });
        } else if k < 15 {
            let sep = ["", ", ", "\n", " \u{2713} ", "%s{}"][rng.below(5)].to_string();
            let mut args: Vec<String> = (0..rng.below(4)).map(|i| CONTENTS[(i + rng.below(3)) % 4].to_string()).collect();
            args.push(sep);
            calls.push(Call { func: "io.print_array".into(), args, host });
        } else {
            let f = FS_FUNCS[rng.below(FS_FUNCS.len())];
            let args = if f.2 == 1 {
                vec![path(&mut rng)]
            } else if f.0 == "write_to_file" {
                vec![path(&mut rng), CONTENTS[rng.below(CONTENTS.len())].to_string()]
            } else if f.0 == "copy_file" && rng.chance(1, 10) {
                // a source without a final name component and a target spelled as a directory: the
                // source is refused before the target is looked at
                vec![["", ".", "..", "/"][rng.below(4)].to_string(), ["d/", "b/", "m/"][rng.below(3)].to_string()]
            } else {
                vec![path(&mut rng), path(&mut rng)]
            };
            calls.push(Call { func: format!("fs.{}", f.0), args, host });
        }
    }
    let mut faults = Vec::new();
    if faulty {
        let rate = [5u64, 15, 30][rng.below(3)];
        // swarm: a per-run subset of fault kinds
        let mut kinds: Vec<i32> = ERRNOS.iter().map(|e| e.0).collect();
        rng.shuffle(&mut kinds);
        kinds.truncate(1 + rng.below(5));
        for i in 0..calls.len() {
            if rng.chance(rate, 100) {
                faults.push((i, kinds[rng.below(kinds.len())], rng.below(2) as u8));
            }
        }
        if faults.is_empty() {
            faults.push((rng.below(calls.len()), kinds[0], rng.below(2) as u8));
        }
        // one fault-injecting run in five: a BURST - two or three faults on neighbouring OS calls
        // (i, i+1 / i, i+2 / i, i+1, i+2), the first one of a kind that makes implementations take
        // another route (cross-device, interrupted, busy, would-block): what fails is then the
        // second or third step of a fall-back, a retry or a clean-up
        if rng.chance(1, 5) {
            let i = rng.below(calls.len() + 1);
            let first = [libc::EXDEV, libc::EINTR, libc::EBUSY, libc::EAGAIN, libc::EXDEV][rng.below(5)];
            faults.retain(|(k, _, _)| *k < i || *k > i + 2);
            faults.push((i, first, 0));
            let second = kinds[rng.below(kinds.len())];
            match rng.below(3) {
                0 => faults.push((i + 1, second, rng.below(2) as u8)),
                1 => faults.push((i + 2, second, rng.below(2) as u8)),
                _ => {
                    faults.push((i + 1, kinds[rng.below(kinds.len())], 0));
                    faults.push((i + 2, second, rng.below(2) as u8));
                }
            }
            faults.sort();
        }
    }
    // one run in twelve: a world with unwritable files in which calls only read, write and copy
    let mut readonly = Vec::new();
    if rng.chance(1, 12) {
        for (p, c) in &init {
            if c.is_some() && rng.chance(2, 3) {
                readonly.push(p.clone());
            }
        }
        if !readonly.is_empty() {
            let contents_of = |p: &str| init.iter().find(|(q, _)| q == p).and_then(|(_, c)| c.clone()).map(|b| String::from_utf8_lossy(&b).into_owned());
            for c in calls.iter_mut() {
                if !c.func.starts_with("fs.") {
                    continue;
                }
                let p0 = c.args.first().cloned().unwrap_or_default();
                match rng.below(4) {
                    0 => {
                        c.func = "fs.file_read_to_string".into();
                        c.args = vec![p0];
                    }
                    1 => {
                        let ro = readonly[rng.below(readonly.len())].clone();
                        c.func = "fs.copy_file".into();
                        c.args = vec![p0, ro];
                    }
                    k => {
                        // writing what the unwritable file already holds (k == 2) or something else
                        let ro = readonly[rng.below(readonly.len())].clone();
                        let same = contents_of(&ro).unwrap_or_default();
                        c.func = "fs.write_to_file".into();
                        c.args = vec![ro, if k == 2 { same } else { CONTENTS[rng.below(CONTENTS.len())].to_string() }];
                    }
                }
            }
        }
    }
    // one fault-injecting run in six: from some OS call on the failure is a state, not an event
    let sticky = if faulty && readonly.is_empty() && rng.chance(1, 6) { Some((rng.below(calls.len().max(1)), STICKY_ERRNOS[rng.below(STICKY_ERRNOS.len())])) } else { None };
    Scenario { boot_seed, key_seed, init, calls, faults, stdin, readonly, sticky }
}

// ---------------------------------------------------------------------------------------------
// C03 clause: `import` under every file-system state and read fault (enumerated)

pub const MODULE_STATES: &[(&str, &str)] = &[
    ("absent", ""),
    ("directory", ""),
    ("empty", ""),
    ("valid", "a := 1; f := (x: int) -> int { return x + a }; s := \"t\"; _h := [a, 2]"),
    ("syntax-error", "a := := 1"),
    ("type-error", "a := 1 + \"x\""),
    ("fold-fails", "a := 1 / 0"),
    ("fold-fails-index", "b := [1, 2][5]"),
    ("non-utf8", ""),
    ("undefined-name", "a := nope"),
    ("break-outside", "break"),
    ("nested", "inner := import \"q\"; a := 1"),
    ("return-top", "return 5"),
    ("comment-only", "// nothing\n/* at all */"),
    ("unterminated", "a := \"abc"),
    ("big-int", "a := 99999999999999999999"),
    ("constant-last", "a := 1; 5"),
    ("only-constant", "5"),
    ("whitespace-only", "   \n\t\n"),
    ("shadows-importer", "z := \"mine\"; w := z"),
    // files that end inside a multi-byte character / with a bad continuation byte
    ("truncated-utf8-2", ""),
    ("truncated-utf8-3", ""),
    ("truncated-utf8-4", ""),
    ("bad-continuation", ""),
    // a string literal containing a no-break space; names that differ only in case
    ("nbsp-literal", "label := \"10\u{a0}km\""),
    ("case-names", "g := 1; G := 2; id := 3; ID := 4; Id := 5"),
    // UTF-16 files (byte-order mark first): not valid UTF-8, whatever their length
    ("utf16le-odd", ""),
    ("utf16be-odd", ""),
    ("utf16le-even", ""),
    // refers to a name of the importer (the imported file is checked on top of the importer's scope
    // AT THE POSITION of the import): no claim about its names unless the form defines `outer_x`
    ("uses-importer-name", "y := outer_x + 1"),
    // all its names are constants, and it writes a cell of the importer (no claim unless the form declares `outer_c`)
    ("effect-on-importer", "a := 1; outer_c += 5"),
    // every statement form of docs/statements.md in one imported file (value, type and default
    // arms of match, if-set, while-set, for, loop, destructuring, struct, module, type filter, slice)
    ("all-constructs", "v := match 5 { x: float => 1, 5, 6 => 2, => 3, }; w := if y: int = v { y } else { 0 }; (p, q) := (1, \"s\"); st := struct{a := p, b := q}; m := mod { k := 1 }; fn1 := (x: int|string) -> int { return match x { 1 => 10, \"a\", \"b\" => 20, i: int => i, s: string => 0, } }; acc := mut 0; for e in [1, 2, 3]~ { acc += e }; i := mut 0; loop { i += 1; if *i > 2 { break } }; while *i > 0 { i -= 1 }; n := mut 3; while t: int = *n { n -= 1; if t < 2 { break } }; fl := ([1, \"a\", 2.5]~ ? int) $]; sl := [1, 2, 3][1:]; cnt := mut 0; for e2 in () -> (bool, int) { cnt += 1; return (*cnt < 3, *cnt) } { acc += e2 }; g2 := (() -> int { return 1 }); r2 := [1, 2]~ $0 (s2: int, e3: int) -> int { return s2 + e3 }"),
];

/// The top-level names a successfully imported file in this state must yield (None = no claim).
fn module_names(state: &str) -> Option<Vec<&'static str>> {
    Some(match state {
        "valid" => vec!["_h", "a", "f", "s"],
        "nested" => vec!["a", "inner"],
        "empty" | "comment-only" | "whitespace-only" | "only-constant" => vec![],
        "constant-last" => vec!["a"],
        "shadows-importer" => vec!["w", "z"],
        "nbsp-literal" => vec!["label"],
        "case-names" => vec!["G", "ID", "Id", "g", "id"],
        "all-constructs" => vec!["acc", "cnt", "fl", "fn1", "g2", "i", "m", "n", "p", "q", "r2", "sl", "st", "v", "w"],
        _ => return None,
    })
}

pub const IMPORT_FORMS: &[&str] = &[
    "m := import \"p\"; m",
    "import \"p\"",
    "f := () -> int { m := import \"p\"; return 1 }; f()",
    "{ m := import \"p\"; 1 }",
    "a := import \"p\"; b := import \"p\"; 2",
    "if true { import \"p\" } else { 0 }",
    // the same file twice / a file reached along two import paths: every import yields the module
    "a := import \"p\"; b := import \"p\"; (a.a, b.a, b.s, b.f(1))",
    "m := import \"p\"; n := import \"q\"; (m.a, n.a, m.inner.a, n.f(1), m.inner.s)",
    "g := () -> int { m := import \"p\"; return m.a + m.f(1) }; (g(), g())",
    // the importer's own names must not leak into the module, nor be changed by it
    "z := 9; y := \"keep\"; m := import \"p\"; (m, z, y)",
    // paths that name a directory without a final normal component (these four ignore p's content)
    "import \"..\"",
    "m := import \".\"; m",
    "import \"/\"",
    "import \"p/..\"",
    // the position of the import decides which of the importer's names the file sees
    "outer_x := 1; m := import \"p\"; m.y",
    "outer_x := 1; { outer_x := 2; m := import \"p\"; m.y }",
    "outer_x := \"top\"; f := (outer_x: int) -> int { m := import \"p\"; return m.y }; f(5)",
    "k := mod { outer_x := 10; m := import \"p\" }; k.m.y",
    // spellings that demand a directory: on a regular file the read fails with ENOTDIR
    "m := import \"p/\"; m",
    "import \"p/.\"",
    "import \"p//\"",
    // the file may use functions and modules the importer declared before the import
    "helper := (v: int) -> int { return v * 2 }; outer_x := helper(4); m := import \"p\"; m.y",
    "g := (outer_x: int) -> int { k := outer_x + 1; m := import \"p\"; return m.y + k }; (g(1), g(2))",
    // a path literal that is not a valid string / an empty path / a path with a NUL escape
    "import \"\\q\"",
    "m := import \"\"; m",
    "import \"a\\0b\"",
    // (26) the content of a string literal of the file; (27) all names of the file
    "m := import \"p\"; (m.label == \"10\u{a0}km\", std.len(m.label))",
    "m := import \"p\"; (m.g, m.G, m.id, m.ID, m.Id)",
    // (28) a path string longer than 255 bytes whose components are all short (it names `p`)
    LONG_DOTTED_IMPORT,
    // (29, 30) blanks are part of a path; (31) escapes in the path literal are resolved: "\x70" is "p"
    "import \"p \"",
    "m := import \" p\"; m",
    "m := import \"\\x70\"; m",
    // (32) `~` is an ordinary character of a file name (the file is stored as `~p` too)
    "m := import \"~p\"; m",
    // (33, 34) a statement that follows an import on the next line, without `;`, and starts with
    // letters that could continue the import statement (`as ...`)
    "m := import \"p\"\nassume := 3; (m.a, assume)",
    "import \"p\"\nascii := 4; ascii",
    // (35) what the file does to a cell of the importer happens; (36) inside a loop of the importer
    "outer_c := mut 0; m := import \"p\"; (m.a, *outer_c)",
    "outer_c := mut 0; n := mut 0; while *n < 3 { n += 1; m := import \"p\" }; *outer_c",
    // (37) a file in a directory imports a DIFFERENT file that has the same base name (`d/p` imports `p`)
    "m := import \"d/p\"; (m.b2, m.inner.a, m.inner.f(1))",
];
const ESCAPED_P_FORM: usize = 31;
const TILDE_FORM: usize = 32;
/// forms judged like `m := import "p"; m` (another spelling of the path)
fn plain_spelling(form: usize) -> bool {
    form == LONG_DOTTED_FORM || form == ESCAPED_P_FORM || form == TILDE_FORM
}
/// `m := import "./././ ... /p"; m` with 140 `./` components (282 bytes)
const LONG_DOTTED_IMPORT: &str = "m := import \"./././././././././././././././././././././././././././././././././././././././././././././././././././././././././././././././././././././././././././././././././././././././././././././././././././././././././././././././././././././././././././././././././././././././././././././././p\"; m";
const LONG_DOTTED_FORM: usize = 28;
/// forms up to this index import `p` (and possibly `q`) and use at most the members a / s / f
const LAST_PLAIN_FORM: usize = 9;

/// What a fault-free case must evaluate to (canonical value text) when its files are valid.
fn expected_value(form: usize, p: &str, q: &str) -> Option<&'static str> {
    match (form, p, q) {
        (6, "valid", _) => Some("(1,1,\"t\",2)"),
        (7, "nested", "valid") => Some("(1,1,1,2,\"t\")"),
        (8, "valid", _) => Some("(3,3)"),
        (14, "uses-importer-name", _) => Some("2"),
        (15, "uses-importer-name", _) => Some("3"),
        (16, "uses-importer-name", _) => Some("6"),
        (17, "uses-importer-name", _) => Some("11"),
        (21, "uses-importer-name", _) => Some("9"),
        (22, "uses-importer-name", _) => Some("(4,6)"),
        (26, "nbsp-literal", _) => Some("(true,5)"),
        (37, "valid", _) => Some("(5,1,2)"),
        (33, "valid", _) => Some("(1,3)"),
        (34, "valid", _) => Some("4"),
        (35, "effect-on-importer", _) => Some("(1,5)"),
        (36, "effect-on-importer", _) => Some("15"),
        (27, "case-names", _) => Some("(1,2,3,4,5)"),
        _ => None,
    }
}

#[derive(Clone, Debug)]
pub struct ImportCase {
    pub form: usize,
    pub p_state: usize,
    pub q_state: usize,
    /// "after unrelated work": on the same thread a first parse of `m := import "p"; m` ran while p
    /// was in this state (its outcome is ignored); then p is put into `p_state` and the case runs
    pub before: Option<usize>,
    /// fault at seam call index (0 = reading p, 1 = next read) or None
    pub fault: Option<(usize, i32)>,
}

fn module_node(state: usize) -> Option<Node> {
    match MODULE_STATES[state].0 {
        "absent" => None,
        "directory" => Some(Node::Dir),
        "non-utf8" => Some(Node::File(vec![b'a', 0xff, 0xfe])),
        "utf16le-odd" => Some(Node::File(vec![0xff, 0xfe, 0x61, 0x00, 0x20])),
        "utf16be-odd" => Some(Node::File(vec![0xfe, 0xff, 0x00])),
        "utf16le-even" => Some(Node::File(vec![0xff, 0xfe, b'x', 0, b' ', 0, b':', 0, b'=', 0, b' ', 0, b'1', 0])),
        "truncated-utf8-2" => Some(Node::File(b"a := 1 // \xc5".to_vec())),
        "truncated-utf8-3" => Some(Node::File(b"a := \"x\"\n\xe2\x82".to_vec())),
        "truncated-utf8-4" => Some(Node::File(b"\xf0\x9f\x98".to_vec())),
        "bad-continuation" => Some(Node::File(b"a := 1 // \xc5 x\n".to_vec())),
        _ => Some(Node::File(MODULE_STATES[state].1.as_bytes().to_vec())),
    }
}

pub fn run_import_case(case: &ImportCase, key_seed: u64) -> RunReport {
    crate::run::note_current(|| import_case_json(case, crate::boot::current(), key_seed));
    let case = case.clone();
    let r = on_fresh_thread(key_seed, move || {
        let mut rep = RunReport::default();
        let mut o = SimOs::new();
        if let Some(n) = module_node(case.p_state) {
            o.nodes.insert("p".into(), n.clone());
            o.nodes.insert("~p".into(), n);
        }
        if let Some(n) = module_node(case.q_state) {
            o.nodes.insert("q".into(), n);
        }
        // a directory holding a file with the same base name as `p`, which imports `p`
        o.nodes.insert("d".into(), Node::Dir);
        o.nodes.insert("d/p".into(), Node::File(b"inner := import \"p\"; b2 := 5".to_vec()));
        if let Some(b) = case.before {
            // first parse with p in another state, same thread; then the file changes
            let mut first = SimOs::new();
            if let Some(n) = module_node(b) {
                first.nodes.insert("p".into(), n);
            }
            if let Some(n) = module_node(case.q_state) {
                first.nodes.insert("q".into(), n);
            }
            os::install(first);
            let interp0 = Interpreter::with_stdlib();
            let _ = guarded(|| Code::parse(&interp0, IMPORT_FORMS[0]).map(|c| c.exec()));
            let _ = guarded(|| Code::parse(&interp0, IMPORT_FORMS[6]).map(|c| c.exec()));
            os::uninstall();
        }
        if let Some((i, e)) = case.fault {
            if i == 100 {
                o.faults.insert(0, FaultSpec { errno: e, torn: 0 });
                o.faults.insert(1, FaultSpec { errno: e, torn: 0 });
            } else if i == 200 {
                // persistent: every read of this parse fails the same way
                for k in 0..24 {
                    o.faults.insert(k, FaultSpec { errno: e, torn: 0 });
                }
            } else {
                o.faults.insert(i, FaultSpec { errno: e, torn: 0 });
            }
        }
        let pre_state = {
            let mut clean = o.clone();
            clean.faults.clear();
            clean
        };
        os::install(o);
        let interp = Interpreter::with_stdlib();
        let text = IMPORT_FORMS[case.form];
        let desc = format!(
            "`{text}` with p = {}, q = {}, fault = {:?}{}",
            MODULE_STATES[case.p_state].0,
            MODULE_STATES[case.q_state].0,
            case.fault,
            case.before.map(|b| format!(", after a parse on the same thread while p was {}", MODULE_STATES[b].0)).unwrap_or_default()
        );
        rep.events = 1;
        let parsed = guarded(|| Code::parse(&interp, text));
        let calls: Vec<os::Call> = os::with(|o| o.calls.clone()).unwrap();
        let injected_hit = calls.iter().any(|c| c.injected);
        if injected_hit {
            *rep.faults_fired.entry(errno_name(case.fault.unwrap().1)).or_default() += 1;
        }
        rep.triples.push(format!("import|{}|{}|{}", MODULE_STATES[case.p_state].0, MODULE_STATES[case.q_state].0, case.fault.map(|f| errno_name(f.1)).unwrap_or("none".into())));
        match parsed {
            Err(p) => {
                rep.violation = Some(("parse-panic".into(), format!("parsing {desc} panicked: {p}")));
            }
            Ok(Err(e)) => {
                rep.log.push(format!("{desc} -> Err {}", cerror(&e)));
                // a readable, well-formed file imported without any fault: the import must succeed
                let q_ok = MODULE_STATES[case.p_state].0 != "nested" || module_names(MODULE_STATES[case.q_state].0).is_some();
                // (forms 6 and 8 use the members a / s / f, which only the "valid" file declares)
                let uses_members = matches!(case.form, 6 | 8 | 33 | 37);
                if case.fault.is_none()
                    && case.form != 7
                    && (case.form <= LAST_PLAIN_FORM || plain_spelling(case.form) || matches!(case.form, 33 | 34 | 37))
                    && module_names(MODULE_STATES[case.p_state].0).is_some()
                    && q_ok
                    && (!uses_members || MODULE_STATES[case.p_state].0 == "valid")
                {
                    rep.violation = Some(("readable-import-rejected".into(), format!("{desc}: every file is readable and well-formed, but parsing reports {}", cerror(&e))));
                    return rep;
                }
                // a failed read must surface as an error that IS or CARRIES the IO error that occurred
                // (the bare `Error::IO`, or another variant whose source chain holds an io::Error
                // of that kind or whose text contains the OS message); an unrelated error does not
                if let Some(c) = calls.first() {
                    if let CallResult::Err(kind, msg) = &c.result {
                        let carries = {
                            let mut src: Option<&(dyn std::error::Error + 'static)> = std::error::Error::source(&e);
                            let mut found = false;
                            while let Some(s) = src {
                                if let Some(io) = s.downcast_ref::<std::io::Error>() {
                                    found = found || io.kind() as i64 == *kind;
                                }
                                src = s.source();
                            }
                            let os_text = msg.split(" (os error").next().unwrap_or(msg);
                            found || (!os_text.is_empty() && e.to_string().contains(os_text))
                        };
                        let ok = matches!(&e, Error::IO(io) if io.kind() as i64 == *kind) || (!matches!(&e, Error::IO(_)) && carries);
                        if !ok && calls.len() == 1 {
                            rep.violation = Some(("io-error-lost".into(), format!("{desc}: reading the file failed with kind {kind} but parse reports {}", cerror(&e))));
                        }
                    }
                }
            }
            Ok(Ok(code)) => {
                rep.log.push(format!("{desc} -> Ok"));
                // the path as written cannot be read (the model's read of that spelling fails on
                // the initial tree, no fault involved): the program must not be accepted
                if case.fault.is_none() && case.form != ESCAPED_P_FORM {
                    if let Some(lit) = text.split("import \"").nth(1).and_then(|r| r.split('"').next()) {
                        let mut dry = pre_state.clone();
                        if let Err(e) = simplesl_verif_seams::fs::model_apply(&mut dry, "read_to_string", &[lit.to_string()]) {
                            rep.violation = Some(("unreadable-import-accepted".into(), format!("{desc}: reading \"{lit}\" fails ({e}) but the program was accepted")));
                            return rep;
                        }
                    }
                }
                // (an implementation may try several paths; what must not happen is acceptance although
                // the last read - the one whose text would have been the module - failed)
                if calls.last().is_some_and(|c| matches!(c.result, CallResult::Err(..))) {
                    rep.violation = Some(("io-error-lost".into(), format!("{desc}: the last read failed but the program was accepted")));
                    return rep;
                }
                let r = guarded(|| code.exec());
                rep.events += 1;
                match r {
                    Err(p) => rep.violation = Some(("exec-panic".into(), format!("executing accepted {desc} panicked: {p}"))),
                    Ok(Ok(v)) if case.fault.is_none() && (case.form <= 1 || case.form == 9 || plain_spelling(case.form)) && module_names(MODULE_STATES[case.p_state].0).is_some() => {
                        let module = match (&v, case.form) {
                            (Variable::Tuple(t), 9) => {
                                // the importer's own names are untouched
                                if t.len() == 3 && (cvar(&t[1]) != "9" || cvar(&t[2]) != "\"keep\"") {
                                    rep.violation = Some(("module-names".into(), format!("{desc}: the importer's z / y are {} / {} after the import", cvar(&t[1]), cvar(&t[2]))));
                                    return rep;
                                }
                                t.first().cloned()
                            }
                            (other, _) => Some(other.clone()),
                        };
                        if let Some(Variable::Struct(m)) = module {
                            let mut names: Vec<String> = m.keys().map(|k| k.to_string()).collect();
                            names.sort();
                            let want = module_names(MODULE_STATES[case.p_state].0).unwrap();
                            if names != want {
                                rep.violation = Some(("module-names".into(), format!("{desc}: module has fields {names:?}, the file declares {want:?}")));
                                return rep;
                            }
                            if let (Some(Variable::Struct(inner)), Some(want_inner)) = (m.get("inner"), module_names(MODULE_STATES[case.q_state].0)) {
                                let mut names: Vec<String> = inner.keys().map(|k| k.to_string()).collect();
                                names.sort();
                                if names != want_inner {
                                    rep.violation = Some(("module-names".into(), format!("{desc}: inner module has fields {names:?}, its file declares {want_inner:?}")));
                                    return rep;
                                }
                            }
                            if MODULE_STATES[case.p_state].0 == "shadows-importer" && case.form == 9 {
                                if m.get("z").map(cvar) != Some("\"mine\"".to_string()) || m.get("w").map(cvar) != Some("\"mine\"".to_string()) {
                                    rep.violation = Some(("module-value".into(), format!("{desc}: module is {}, the file defines z = w = \"mine\"", cvar(&Variable::Struct(m.clone())))));
                                    return rep;
                                }
                            }
                        } else {
                            rep.violation = Some(("module-names".into(), format!("{desc}: the import did not yield a struct but {}", cvar(&v))));
                        }
                    }
                    Ok(Ok(v)) => {
                        if let (None, Some(want)) = (case.fault, expected_value(case.form, MODULE_STATES[case.p_state].0, MODULE_STATES[case.q_state].0)) {
                            if cvar(&v) != want {
                                rep.violation = Some(("module-value".into(), format!("{desc}: evaluates to {} but the imported files define {want}", cvar(&v))));
                            }
                        }
                    }
                    Ok(Err(_)) => {}
                }
            }
        }
        if rep.violation.is_none() && case.fault.is_none() {
            if let (Some(want), Some(l)) = (expected_value(case.form, MODULE_STATES[case.p_state].0, MODULE_STATES[case.q_state].0), rep.log.last()) {
                if l.contains("-> Err") {
                    rep.violation = Some(("module-value".into(), format!("{l}; the files are readable and define {want}")));
                }
            }
        }
        os::uninstall();
        rep
    });
    r.unwrap_or_else(|p| RunReport { harness_error: Some(format!("run thread panicked: {p}")), ..Default::default() })
}

pub fn import_cases() -> Vec<ImportCase> {
    let mut v = Vec::new();
    let nested = MODULE_STATES.iter().position(|s| s.0 == "nested").unwrap();
    let fault_opts: Vec<Option<(usize, i32)>> = {
        let mut f = vec![None];
        for (e, _) in ERRNOS {
            f.push(Some((0, *e)));
        }
        for (e, _) in ERRNOS.iter().take(4) {
            f.push(Some((1, *e)));
        }
        f
    };
    // the same errno on the first AND the second read (retry logic): encoded as index 100 + errno
    let mut double: Vec<Option<(usize, i32)>> = [libc::EINTR, libc::EAGAIN, libc::EIO].iter().map(|e| Some((100, *e))).collect();
    // the same errno on EVERY read of the parse (a retry loop runs to its end): index 200
    for (e, _) in ERRNOS {
        double.push(Some((200, *e)));
    }
    for form in 0..IMPORT_FORMS.len() {
        for p in 0..MODULE_STATES.len() {
            let qs: Vec<usize> = if p == nested || form == 7 { (0..MODULE_STATES.len()).filter(|q| *q != nested).collect() } else { vec![0] };
            for q in qs {
                for f in fault_opts.iter().chain(double.iter()) {
                    v.push(ImportCase { form, p_state: p, q_state: q, fault: *f, before: None });
                }
            }
        }
    }
    // history on the thread: an earlier parse saw p in another state (a failing or a different file)
    for form in [0usize, 1, 6, 9] {
        for before in 0..MODULE_STATES.len() {
            for p in 0..MODULE_STATES.len() {
                if before == p || before == nested {
                    continue;
                }
                let q = if p == nested { 3 } else { 0 };
                v.push(ImportCase { form, p_state: p, q_state: q, fault: None, before: Some(before) });
            }
        }
    }
    v
}

pub fn import_case_json(c: &ImportCase, boot_seed: u64, key_seed: u64) -> Value {
    json!({"sim": "ossim-import", "boot_seed": boot_seed, "key_seed": key_seed, "form": c.form, "p_state": c.p_state, "q_state": c.q_state,
           "fault": c.fault.map(|(i, e)| json!([i, e])), "before": c.before, "program": IMPORT_FORMS[c.form], "p": MODULE_STATES[c.p_state].0, "q": MODULE_STATES[c.q_state].0})
}

pub fn import_case_from_json(v: &Value) -> ImportCase {
    ImportCase {
        form: v["form"].as_u64().unwrap() as usize,
        p_state: v["p_state"].as_u64().unwrap() as usize,
        q_state: v["q_state"].as_u64().unwrap() as usize,
        fault: v["fault"].as_array().map(|a| (a[0].as_u64().unwrap() as usize, a[1].as_i64().unwrap() as i32)),
        before: v["before"].as_u64().map(|b| b as usize),
    }
}

// ---------------------------------------------------------------------------------------------
// worker / single / minimise

fn merge(into: &mut BTreeMap<String, u64>, from: &BTreeMap<String, u64>) {
    for (k, v) in from {
        *into.entry(k.clone()).or_default() += v;
    }
}

pub fn worker(input: &Value) -> Value {
    let property = input["property"].as_str().unwrap();
    let seed = input["seed"].as_u64().unwrap();
    let boot_seed = input["boot_seed"].as_u64().unwrap();
    let shard = input["shard"].as_u64().unwrap();
    let shards = input["shards"].as_u64().unwrap();
    let runs = input["runs"].as_u64().unwrap();
    let validate = input["validate_runs"].as_u64().unwrap_or(0);
    let real_runs = input["real_runs"].as_u64().unwrap_or(0);
    let mut real_done: BTreeMap<String, u64> = BTreeMap::new();
    let thorough = input["tier"].as_str() == Some("thorough");
    let mut enumerated = 0u64;
    let mut torn_n = 0u64;
    crate::boot::boot(boot_seed);
    let mut violations = Vec::new();
    let mut harness_errors = Vec::new();
    let mut n = 0u64;
    let mut events = 0u64;
    let mut triples = std::collections::BTreeSet::new();
    let mut faults = BTreeMap::new();
    let mut natural = BTreeMap::new();
    let mut torn = 0u64;
    let mut torn_seen = 0u64;
    let mut after_create = 0u64;
    let mut lang_rejected = 0u64;
    let mut states = std::collections::BTreeSet::new();
    let mut samples = Vec::new();
    let mut validated = 0u64;
    let mut table_runs = 0u64;
    let want_trace = input["trace"].as_bool().unwrap_or(false);
    let mut trace: Vec<Value> = Vec::new();
    if property == "C03" {
        let cases = import_cases();
        for (i, c) in cases.iter().enumerate() {
            if i as u64 % shards != shard {
                continue;
            }
            let ks = derive_n(seed, "c03-keys", i as u64);
            let rep = run_import_case(c, ks);
            n += 1;
            if want_trace {
                trace.push(json!([i, trace_digest(&rep), import_case_json(c, boot_seed, ks)]));
            }
            events += rep.events;
            for t in &rep.triples {
                triples.insert(t.clone());
            }
            merge(&mut faults, &rep.faults_fired);
            if let Some(h) = &rep.harness_error {
                harness_errors.push(json!({"what": h}));
            }
            if let Some((class, detail)) = &rep.violation {
                if violations.len() < 8 {
                    violations.push(json!({"class": class, "detail": detail, "subject_id": format!("import:{}:{}:{}", IMPORT_FORMS[c.form], MODULE_STATES[c.p_state].0, MODULE_STATES[c.q_state].0), "scenario": import_case_json(c, boot_seed, ks)}));
                }
            }
            if samples.len() < 3 && i % 97 == 5 {
                samples.push(json!({"case": import_case_json(c, boot_seed, ks), "log": rep.log}));
            }
        }
        return json!({"boot_seed": boot_seed, "runs": n, "events": events, "triples": triples.iter().collect::<Vec<_>>(), "faults_fired": faults, "cases_total": cases.len(), "trace": trace,
                      "violations": violations, "harness_errors": harness_errors, "samples": samples});
    }
    let mut run = shard;
    let mut abandoned_runs = 0;
    while run < runs {
        // fault-free and fault-injecting configurations alternate
        let faulty = run % 2 == 1;
        let sc = gen(seed, boot_seed, run, faulty);
        let rep = run_scenario(&sc);
        n += 1;
        if want_trace {
            trace.push(json!([run, trace_digest(&rep), sc.to_json()]));
        }
        events += rep.events;
        for t in &rep.triples {
            triples.insert(t.clone());
        }
        merge(&mut faults, &rep.faults_fired);
        merge(&mut natural, &rep.natural_errors);
        torn += rep.torn_effects;
        torn_seen += rep.torn_seen_by_later_read;
        after_create += rep.fault_after_create;
        lang_rejected += rep.lang_rejected;
        states.insert(rep.state_digest);
        if let Some(h) = &rep.harness_error {
            harness_errors.push(json!({"what": h, "scenario": sc.to_json()}));
            // circuit breaker (see cellsim::worker): two runs abandoned by the watchdog end the worker
            if h.contains(crate::run::WATCHDOG) {
                abandoned_runs += 1;
                if abandoned_runs >= 2 {
                    harness_errors.push(json!({"what": "worker stopped after two abandoned runs"}));
                    break;
                }
            }
        }
        if run % 50 == shard % 50 {
            let again = run_scenario(&sc);
            if again.log != rep.log || again.violation != rep.violation {
                harness_errors.push(json!({"what": "same scenario, different log", "scenario": sc.to_json()}));
            }
        }
        if let Some((class, detail)) = &rep.violation {
            if violations.len() < 8 {
                violations.push(json!({"class": class, "detail": detail, "subject_id": format!("run{run}"), "scenario": sc.to_json(), "log": rep.log}));
            }
        }
        if run % 16 == shard % 16 {
            // the fixed table of the remaining exports
            let t = run_table(sc.key_seed, derive_n(seed, "c18-table", run));
            table_runs += 1;
            events += t.events;
            for x in &t.triples {
                triples.insert(x.clone());
            }
            if let Some((class, detail)) = &t.violation {
                if violations.len() < 8 {
                    violations.push(json!({"class": class, "detail": detail, "subject_id": format!("table{run}"), "scenario": {"sim": "ossim-table", "boot_seed": boot_seed, "key_seed": sc.key_seed, "arg_seed": derive_n(seed, "c18-table", run)}}));
                }
            }
        }
        // thorough: systematic single-fault enumeration on a sample of the fault-free sequences -
        // every OS-call index x every errno kind x {before effect, torn}
        if thorough && !faulty && run % 400 == shard % 400 && rep.violation.is_none() {
            let n_os_calls = sc.calls.len();
            for idx in 0..n_os_calls {
                for (errno, _) in ERRNOS {
                    for torn in 0..2u8 {
                        let mut f = sc.clone();
                        f.faults = vec![(idx, *errno, torn)];
                        let r = run_scenario(&f);
                        n += 1;
                        enumerated += 1;
                        events += r.events;
                        for t in &r.triples {
                            triples.insert(t.clone());
                        }
                        merge(&mut faults, &r.faults_fired);
                        torn_n += r.torn_effects;
                        if let Some((class, detail)) = &r.violation {
                            if violations.len() < 8 {
                                violations.push(json!({"class": class, "detail": detail, "subject_id": format!("run{run}+fault{idx}/{errno}/{torn}"), "scenario": f.to_json(), "log": r.log}));
                            }
                        }
                    }
                }
            }
        }
        if real_done.values().sum::<u64>() < real_runs && !faulty {
            let extras = { let k = derive_n(seed, "c18-real", run); if k % 2 == 0 { 0 } else { 1 + ((k >> 8) % 7) as u8 } };
            let r = run_real(&sc, extras);
            *real_done.entry(world_name(extras)).or_default() += 1;
            events += r.events;
            if let Some(h) = &r.harness_error {
                harness_errors.push(json!({"what": h, "scenario": sc.to_json(), "extras": extras}));
            }
            if let Some((class, detail)) = &r.violation {
                if violations.len() < 8 {
                    let mut j = sc.to_json();
                    j["sim"] = json!("ossim-real");
                    j["extras"] = json!(extras);
                    violations.push(json!({"class": class, "detail": detail, "subject_id": format!("real-run{run}"), "scenario": j, "log": r.log}));
                }
            }
        }
        if validated < validate && !faulty {
            let scratch = std::env::temp_dir().join(format!("verif-ossim-{}-{}", std::process::id(), run));
            match validate_model(&sc, &scratch) {
                Ok(_) => validated += 1,
                Err(e) => harness_errors.push(json!({"what": "in-memory FS model disagrees with real std::fs", "detail": e})),
            }
        }
        if samples.len() < 2 && rep.log.len() >= 3 && faulty {
            samples.push(json!({"scenario": sc.to_json(), "log": rep.log}));
        }
        run += shards;
    }
    json!({"boot_seed": boot_seed, "runs": n, "events": events, "triples": triples.iter().collect::<Vec<_>>(), "faults_fired": faults, "natural_errors": natural,
           "torn_effects": torn, "torn_seen_by_later_read": torn_seen, "fault_right_after_create": after_create, "lang_route_rejected": lang_rejected,
           "distinct_final_states": states.len(), "violations": violations, "harness_errors": harness_errors, "samples": samples,
           "validated_against_real_fs": validated, "real_directory_runs": real_done, "table_runs": table_runs, "trace": trace, "single_fault_enumeration_runs": enumerated, "torn_in_enumeration": torn_n})
}

pub fn single(input: &Value) -> Value {
    let boot = input["boot_seed"].as_u64().unwrap();
    crate::boot::boot(boot);
    let rep = match input["sim"].as_str().unwrap_or("ossim") {
        "ossim-import" => run_import_case(&import_case_from_json(input), input["key_seed"].as_u64().unwrap()),
        "ossim-table" => run_table(input["key_seed"].as_u64().unwrap(), input["arg_seed"].as_u64().unwrap()),
        "ossim-real" => run_real(&Scenario::from_json(input), input["extras"].as_u64().unwrap_or(0) as u8),
        _ => run_scenario(&Scenario::from_json(input)),
    };
    json!({"violation": rep.violation.as_ref().map(|(c, d)| json!([c, d])), "log": rep.log, "harness_error": rep.harness_error, "trace_digest": trace_digest(&rep)})
}

pub fn trace_digest(rep: &RunReport) -> String {
    format!("{:016x}", digest(&format!("{:?}#{:?}#{}", rep.log, rep.violation, rep.state_digest)))
}

/// ddmin over calls (fault indices are re-keyed to the surviving calls), then over faults.
pub fn minimise(input: &Value) -> Value {
    let sc = Scenario::from_json(&input["scenario"]);
    let class = input["class"].as_str().unwrap().to_string();
    crate::boot::boot(sc.boot_seed);
    let real = input["scenario"]["sim"].as_str() == Some("ossim-real");
    let extras = input["scenario"]["extras"].as_u64().unwrap_or(0) as u8;
    let run = |s: &Scenario| if real { run_real(s, extras) } else { run_scenario(s) };
    let fails = |s: &Scenario| run(s).violation.as_ref().map_or(false, |(c, _)| *c == class);
    if !fails(&sc) {
        return json!({"reproduced": false});
    }
    let mut trials = 0u64;
    // items: (call, fault attached to that call, stdin event consumed by it)
    let mut stdin_i = 0;
    let items: Vec<(Call, Option<(i32, u8)>, Option<StdinEvent>)> = sc
        .calls
        .iter()
        .enumerate()
        .map(|(i, c)| {
            let f = sc.faults.iter().find(|(fi, _, _)| *fi == i).map(|(_, e, t)| (*e, *t));
            let ev = if c.func == "io.cgetline" {
                let e = sc.stdin.get(stdin_i).cloned();
                stdin_i += 1;
                e
            } else {
                None
            };
            (c.clone(), f, ev)
        })
        .collect();
    let build = |items: &[(Call, Option<(i32, u8)>, Option<StdinEvent>)], init: &[(String, Option<Vec<u8>>)]| {
        let mut s = sc.clone();
        s.init = init.to_vec();
        s.calls = items.iter().map(|i| i.0.clone()).collect();
        s.faults = items.iter().enumerate().filter_map(|(i, it)| it.1.map(|(e, t)| (i, e, t))).collect();
        s.stdin = items.iter().filter_map(|i| i.2.clone()).collect();
        s
    };
    let min_items = crate::ddmin::ddmin(&items, |cand| {
        trials += 1;
        fails(&build(cand, &sc.init))
    });
    let min_init = crate::ddmin::ddmin(&sc.init, |cand| {
        trials += 1;
        fails(&build(&min_items, cand))
    });
    let min_init = if fails(&build(&min_items, &[])) { vec![] } else { min_init };
    // drop faults one by one
    let mut items = min_items;
    for i in 0..items.len() {
        if items[i].1.is_some() {
            let mut cand = items.clone();
            cand[i].1 = None;
            trials += 1;
            if fails(&build(&cand, &min_init)) {
                items = cand;
            }
        }
    }
    let best = build(&items, &min_init);
    let rep = run(&best);
    let mut best_json = best.to_json();
    if real {
        best_json["sim"] = json!("ossim-real");
        best_json["extras"] = json!(extras);
    }
    json!({"reproduced": true, "scenario": best_json, "detail": rep.violation.as_ref().map(|v| v.1.clone()), "log": rep.log, "trials": trials})
}

pub fn _touch() -> (Arc<Function>, u64) {
    unreachable!()
}
