//! `simctl selftest`: proves the simulator itself deterministic and its lock model faithful.
//!
//! 1. determinism: for every simulator the same seeds are executed (a) by one worker process,
//!    (b) by 16 worker processes with the work sharded differently, (c) a second time; the per-run
//!    trace digests (log + verdict + schedule) must be identical in all three. (A lazy static the
//!    boot warm-up misses, a real clock, or any hash order not served by the simulator shows up
//!    here as a difference.)
//! 2. isolation: sampled runs are re-executed *alone* in a fresh process from their explicit
//!    scenario and must give the in-batch digest.
//! 3. lock model: the one behaviour the simulated RwLock adds over a textbook RwLock - a reader
//!    blocks behind a queued writer, a recursive read is fine otherwise - is checked against the
//!    real `std::sync::RwLock` of this platform with real threads.
use crate::driver::workers;
use crate::hashsim::boot_seed_n;
use crate::proc;
use serde_json::{json, Value};
use std::collections::BTreeMap;
use std::sync::mpsc;
use std::sync::{Arc, RwLock};
use std::time::Duration;

type Trace = BTreeMap<String, (String, Value)>;

fn collect(sim: &str, property: &str, seed: u64, boot: u64, shards: u64, runs: u64) -> Result<Trace, String> {
    let mut jobs = Vec::new();
    for s in 0..shards {
        jobs.push((
            vec!["worker".to_string(), sim.to_string()],
            json!({"property": property, "tier": "quick", "seed": seed, "boot_seed": boot, "shard": s, "shards": shards, "runs": runs, "validate_runs": 0, "trace": true}),
        ));
    }
    let mut out = Trace::new();
    for r in proc::call_many(jobs, workers()) {
        let v = r?;
        if let Some(h) = v["harness_errors"].as_array().filter(|a| !a.is_empty()) {
            return Err(format!("worker reported harness errors: {:.500}", h[0].to_string()));
        }
        for t in v["trace"].as_array().cloned().unwrap_or_default() {
            let key = t[0].to_string();
            out.insert(key, (t[1].as_str().unwrap_or("").to_string(), t[2].clone()));
        }
    }
    Ok(out)
}

fn diff(a: &Trace, b: &Trace) -> Option<String> {
    if a.len() != b.len() {
        return Some(format!("{} runs vs {} runs", a.len(), b.len()));
    }
    for (k, (d, sc)) in a {
        match b.get(k) {
            None => return Some(format!("run {k} missing")),
            Some((d2, _)) if d2 != d => return Some(format!("run {k}: digest {d} vs {d2}; scenario {:.600}", sc.to_string())),
            _ => {}
        }
    }
    None
}

/// Real-thread experiment on the platform's std::sync::RwLock.
/// Returns (recursive read with a queued writer blocks, recursive read without a writer succeeds).
pub fn real_rwlock_policy() -> (bool, bool) {
    // without a writer
    let l = Arc::new(RwLock::new(0));
    let ok_plain = {
        let g1 = l.read().unwrap();
        let g2 = l.try_read();
        let ok = g2.is_ok();
        drop(g2);
        drop(g1);
        ok
    };
    // with a queued writer: reader holds, writer queues, reader asks again
    let l = Arc::new(RwLock::new(0));
    let (tx, rx) = mpsc::channel::<&'static str>();
    let l1 = l.clone();
    let tx1 = tx.clone();
    let (go_tx, go_rx) = mpsc::channel::<()>();
    std::thread::spawn(move || {
        let _g1 = l1.read().unwrap();
        tx1.send("r1-held").unwrap();
        go_rx.recv().unwrap(); // writer is (very probably) queued now
        let _g2 = l1.read().unwrap(); // blocks on Linux std if a writer waits
        let _ = tx1.send("r2-acquired");
    });
    assert_eq!(rx.recv().unwrap(), "r1-held");
    let l2 = l.clone();
    let tx2 = tx.clone();
    std::thread::spawn(move || {
        let _ = tx2.send("w-asking");
        let _w = l2.write().unwrap();
        let _ = tx2.send("w-acquired");
    });
    assert_eq!(rx.recv().unwrap(), "w-asking");
    std::thread::sleep(Duration::from_millis(150)); // let the writer reach its futex wait
    go_tx.send(()).unwrap();
    let blocked = rx.recv_timeout(Duration::from_millis(400)).is_err();
    // the two threads stay blocked forever if `blocked`; they die with the process
    (blocked, ok_plain)
}

pub fn selftest(args: &[String]) -> i32 {
    let quick = args.iter().any(|a| a == "--quick");
    let seed = crate::driver::verif_seed();
    let boot = boot_seed_n(seed, 0);
    let mut failed = 0;
    let plan: Vec<(&str, &str, u64)> = vec![
        ("hashsim", "C05", 0),
        ("hashsim", "C15", 0),
        ("cellsim", "C13", if quick { 600 } else { 4000 }),
        ("cellsim", "C16", if quick { 1500 } else { 12000 }),
        ("ossim", "C18", if quick { 1500 } else { 8000 }),
        ("ossim", "C03", 0),
        ("replsim", "C17", if quick { 300 } else { 1500 }),
    ];
    for (sim, prop, runs) in plan {
        let t0 = std::time::Instant::now();
        let one = collect(sim, prop, seed, boot, 1, runs);
        let many = collect(sim, prop, seed, boot, 16, runs);
        let again = collect(sim, prop, seed, boot, 5, runs);
        match (one, many, again) {
            (Ok(a), Ok(b), Ok(c)) => {
                let d1 = diff(&a, &b);
                let d2 = diff(&a, &c);
                if d1.is_some() || d2.is_some() {
                    failed += 1;
                    println!("SELFTEST {prop}/{sim}: NOT DETERMINISTIC: {}", d1.or(d2).unwrap());
                    continue;
                }
                // isolation: sampled runs alone in a fresh process
                let n = a.len();
                let step = (n / if quick { 40 } else { 150 }).max(1);
                let mut alone = 0;
                let mut bad = None;
                for (i, (k, (d, sc))) in a.iter().enumerate() {
                    if i % step != 0 {
                        continue;
                    }
                    let sim_name = sc["sim"].as_str().unwrap_or(sim);
                    let s = if sim_name.starts_with("ossim") { "ossim" } else { sim_name };
                    match proc::call(&["single", s], sc) {
                        Ok(o) => {
                            alone += 1;
                            if o["trace_digest"].as_str() != Some(d.as_str()) {
                                bad = Some(format!("run {k}: in batch {d}, alone {}; scenario {:.500}", o["trace_digest"], sc.to_string()));
                                break;
                            }
                        }
                        Err(e) => {
                            bad = Some(format!("single failed: {e}"));
                            break;
                        }
                    }
                }
                match bad {
                    Some(b) => {
                        failed += 1;
                        println!("SELFTEST {prop}/{sim}: IN-BATCH RUN DIFFERS FROM ISOLATED RUN: {b}");
                    }
                    None => println!(
                        "SELFTEST {prop}/{sim}: ok - {n} runs identical across 1 / 16 / 5 worker processes; {alone} sampled runs identical when re-executed alone in a fresh process ({:.1}s)",
                        t0.elapsed().as_secs_f64()
                    ),
                }
            }
            (a, b, c) => {
                failed += 1;
                println!("SELFTEST {prop}/{sim}: worker error: {:?}", [a.err(), b.err(), c.err()]);
            }
        }
    }
    let (blocked, plain) = real_rwlock_policy();
    if blocked && plain {
        println!("SELFTEST lock-model: ok - on this platform std::sync::RwLock blocks a recursive read behind a queued writer and admits it otherwise (what the simulated lock models)");
    } else {
        failed += 1;
        println!("SELFTEST lock-model: MISMATCH - recursive read with queued writer blocked={blocked}, without writer admitted={plain}");
    }
    if failed == 0 {
        println!("selftest passed");
        0
    } else {
        println!("selftest FAILED ({failed})");
        2
    }
}
