//! Sub-process plumbing: the driver re-executes this binary as `worker` / `single` children so that
//! every boot seed gets its own process (process-wide lazy statics are part of the searched state).
use serde_json::Value;
use std::io::Write;
use std::process::{Command, Stdio};
use std::sync::{Arc, Mutex};

/// prefix of the error text of a child that died by a signal
pub const CRASH: &str = "CHILD-CRASHED";

pub fn self_exe() -> std::path::PathBuf {
    std::env::current_exe().expect("current_exe")
}

/// Runs `simctl <args...>` with `input` on stdin, returns parsed stdout JSON.
pub fn call(args: &[&str], input: &Value) -> Result<Value, String> {
    call_env(args, input, &[])
}

/// Like `call`, with extra environment variables for the child.
pub fn call_env(args: &[&str], input: &Value, envs: &[(&str, String)]) -> Result<Value, String> {
    let mut child = Command::new(self_exe())
        .args(args)
        .envs(envs.iter().map(|(k, v)| (k.to_string(), v.clone())))
        .stdin(Stdio::piped())
        .stdout(Stdio::piped())
        .stderr(Stdio::piped())
        .spawn()
        .map_err(|e| format!("spawn: {e}"))?;
    {
        let mut stdin = child.stdin.take().unwrap();
        let text = input.to_string();
        // write on a thread so that a child that talks before reading cannot deadlock us
        std::thread::spawn(move || {
            let _ = stdin.write_all(text.as_bytes());
        });
    }
    let out = child.wait_with_output().map_err(|e| format!("wait: {e}"))?;
    let stdout = String::from_utf8_lossy(&out.stdout);
    let last = stdout.lines().rev().find(|l| l.starts_with('{'));
    match last {
        Some(l) => serde_json::from_str(l).map_err(|e| format!("bad child json: {e}: {l:.200}")),
        None => {
            use std::os::unix::process::ExitStatusExt;
            let stderr = String::from_utf8_lossy(&out.stderr);
            let tail: String = stderr.lines().rev().take(6).collect::<Vec<_>>().into_iter().rev().collect::<Vec<_>>().join(" | ");
            match out.status.signal() {
                // the child was killed by a signal (stack overflow -> SIGABRT/SIGSEGV, abort ...)
                Some(sig) => Err(format!("{CRASH} signal {sig}; stderr tail: {tail:.1500}")),
                None => Err(format!("child {:?} produced no JSON (status {:?}); stderr: {:.2000}", args, out.status.code(), stderr)),
            }
        }
    }
}

/// Runs the jobs on up to `par` child processes at a time; results in job order.
pub fn call_many(jobs: Vec<(Vec<String>, Value)>, par: usize) -> Vec<Result<Value, String>> {
    let n = jobs.len();
    let jobs = Arc::new(Mutex::new(jobs.into_iter().enumerate().collect::<Vec<_>>()));
    let results: Arc<Mutex<Vec<Option<Result<Value, String>>>>> = Arc::new(Mutex::new((0..n).map(|_| None).collect()));
    let mut handles = Vec::new();
    for _ in 0..par.max(1).min(n.max(1)) {
        let jobs = jobs.clone();
        let results = results.clone();
        handles.push(std::thread::spawn(move || loop {
            let job = jobs.lock().unwrap().pop();
            let Some((i, (args, input))) = job else { break };
            let argv: Vec<&str> = args.iter().map(|s| s.as_str()).collect();
            let r = call(&argv, &input);
            results.lock().unwrap()[i] = Some(r);
        }));
    }
    for h in handles {
        let _ = h.join();
    }
    Arc::try_unwrap(results)
        .unwrap()
        .into_inner()
        .unwrap()
        .into_iter()
        .map(|r| r.unwrap_or_else(|| Err("job not run".into())))
        .collect()
}

pub fn read_stdin_json() -> Value {
    let mut s = String::new();
    std::io::Read::read_to_string(&mut std::io::stdin(), &mut s).expect("read stdin");
    serde_json::from_str(&s).expect("stdin json")
}
