//! Process boot (N4): every `lazy_static` of the crate under test is initialised here, on one boot
//! thread whose hash keys derive from the *boot seed*, before any simulated run starts. After
//! that, process-wide state is a function of the boot seed alone and read-only.
use crate::prng::derive;
use crate::run::on_fresh_thread;
use simplesl::{Code, Interpreter};

/// Touches every lazy static in /repo/src (list kept in sync by `selftest`, which re-runs sampled
/// scenarios alone in a fresh process and compares byte-for-byte with their in-batch logs).
pub const WARM_UP: &[&str] = &[
    // Std + all sub-structs (convert, fs, io, math, operators incl. AND/OR/ALL/ANY/..., string, len)
    "std.len([1])",
    "std.operators.int_sum; std.math.PI; std.string.trim; std.convert.to_int; std.fs.rename; std.io.print",
    // ITER, MAP, FILTER, collect::ACCEPTED_TYPE, ITERATOR_TYPE (type filter), for's $iter/$con
    "f := (x: int) -> int { return x }; p := (x: int) -> bool { return true }; it := [1, 2]~; (it @ f ? p) $]; for e in [1]~ { }; ([1]~ ? int) $]; [1]~ \\ p",
    // reduce statics: sum, product, bool_reduce, bit
    "[1]~ $+; [1.5]~ $*; [true]~ $&&; [true]~ $||; [1]~ $&; [1]~ $|; [1]~ $0 (a: int, b: int) -> int { return a }",
    // operator ACCEPTED_* types, run time (parameters hide the constants from the folder)
    "g := (a: int, b: int, x: float, s: string, t: bool) { a + b; a - b; a * b; a / b; a % b; a ** b; a << b; a >> b; a & b; a | b; a ^ b; a < b; -a; !a; !t; x + x; s + s; [a] + [b]; t && t; t || t; a == b; a != b }",
    // EMPTY_STRUCT_TYPE (field access), mut, slicing, tuple access
    "s := struct{a := 1, b := 2.5}; s.a; m := mut 1; m += 1; *m; [1, 2, 3][0:2]; (1, 2).0; x := mut [1]; x += [2]",
    "if y: int = 5 { y } else { 0 }; match 5 { z: int => z, }; k := 5; match k { 1, 5 => 1, => 0, }",
];

pub fn warm_up_here() {
    let interp = Interpreter::with_stdlib();
    for src in WARM_UP {
        // a warm-up script that the tree under test rejects - or that makes it panic - warms up
        // nothing; it must not take the worker down (the checks are there to report that)
        let _ = crate::run::guarded(|| {
            if let Ok(code) = Code::parse(&interp, src) {
                let _ = code.exec();
            }
        });
    }
    // Type::from_str / Variable::from_str paths
    let _ = "mut (int|string)".parse::<simplesl::variable::Type>();
    let _ = "[1, 2.5]".parse::<simplesl::variable::Variable>();
}

static CURRENT: std::sync::atomic::AtomicU64 = std::sync::atomic::AtomicU64::new(0);

/// The boot seed this process was booted with (0 before `boot`).
pub fn current() -> u64 {
    CURRENT.load(std::sync::atomic::Ordering::Relaxed)
}

/// Process environment as part of the boot state: a process booted with an odd boot seed runs
/// with a bare environment (no HOME, USER, PWD, LANG, TMPDIR, PATH ... - what a daemon, a
/// container entry point or `env -i` gives a program); an even one keeps the inherited
/// environment. Every entry point (worker, single, minimise, replay) boots with the scenario's
/// boot seed, so the environment replays with the scenario.
pub fn bare_environment(boot_seed: u64) -> bool {
    boot_seed & 1 == 1
}

/// Every process that executes code under test does so from an empty directory of its own under
/// the temp directory: whatever that code does to RELATIVE paths behind the seams' back
/// (`Path::exists`, a new `std::fs` call nobody intercepted) meets nothing and litters nothing.
/// Removed again by `leave_private_cwd` at the end of the process.
pub fn enter_private_cwd() {
    let d = std::env::temp_dir().join(format!("verif-cwd-{}", std::process::id()));
    let _ = std::fs::create_dir_all(&d);
    let _ = std::env::set_current_dir(&d);
}

pub fn leave_private_cwd() {
    let d = std::env::temp_dir().join(format!("verif-cwd-{}", std::process::id()));
    let _ = std::env::set_current_dir("/");
    let _ = std::fs::remove_dir_all(&d);
}

pub fn boot(boot_seed: u64) {
    CURRENT.store(boot_seed, std::sync::atomic::Ordering::Relaxed);
    enter_private_cwd();
    if bare_environment(boot_seed) {
        let names: Vec<std::ffi::OsString> = std::env::vars_os().map(|(k, _)| k).collect();
        for k in names {
            let keep = k.to_str().is_some_and(|s| s.starts_with("VERIF_") || s.starts_with("RUST_"));
            if !keep {
                std::env::remove_var(&k);
            }
        }
    }
    on_fresh_thread(derive(boot_seed, "boot-keys"), warm_up_here).expect("boot warm-up panicked");
}
