//! Hash-key seam (N1). std obtains the per-thread `RandomState` keys from `getrandom`, which it
//! resolves through a weak symbol ("allows interposition"). This definition wins at link time, so
//! the 16 key bytes of every OS thread come from the simulator: thread-local `KEY_SEED`.
//! One simulated run = one fresh OS thread whose first action is `set_key_seed(run key seed)`.
use crate::prng::mix;
use std::cell::Cell;
use std::sync::atomic::{AtomicU64, Ordering};

thread_local! {
    static KEY_SEED: Cell<u64> = const { Cell::new(0x5EED_0000_0000_0001) };
    static KEY_CTR: Cell<u64> = const { Cell::new(0) };
    static CALLS_HERE: Cell<u64> = const { Cell::new(0) };
}
pub static CALLS: AtomicU64 = AtomicU64::new(0);

pub fn set_key_seed(seed: u64) {
    KEY_SEED.with(|k| k.set(seed));
    KEY_CTR.with(|k| k.set(0));
}

/// number of getrandom calls served on this thread (1 after the first HashMap was created)
pub fn calls_on_this_thread() -> u64 {
    CALLS_HERE.with(|c| c.get())
}

#[no_mangle]
pub extern "C" fn getrandom(buf: *mut u8, len: usize, _flags: u32) -> isize {
    CALLS.fetch_add(1, Ordering::Relaxed);
    CALLS_HERE.with(|c| c.set(c.get() + 1));
    let seed = KEY_SEED.with(|k| k.get());
    let mut i = 0usize;
    while i < len {
        let ctr = KEY_CTR.with(|k| {
            let c = k.get();
            k.set(c + 1);
            c
        });
        let word = mix(seed ^ mix(ctr.wrapping_add(0xA5A5_A5A5)));
        let bytes = word.to_le_bytes();
        let n = (len - i).min(8);
        // SAFETY: the caller guarantees `buf` points to `len` writable bytes.
        unsafe { std::ptr::copy_nonoverlapping(bytes.as_ptr(), buf.add(i), n) };
        i += n;
    }
    len as isize
}
