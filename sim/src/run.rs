//! One simulated run = one fresh OS thread: its hash keys, lock ids and simulated OS are a
//! function of the run's seed alone. Panics are caught and reported as values.
use crate::keys;
use std::cell::RefCell;
use std::panic::{self, AssertUnwindSafe};

/// Per-run budget of function calls + loop iterations (see seams::fuel); simulators whose
/// programs are tiny lower it so that a runaway program (possible under identifier-collision
/// variants or under a defect in the code under test) costs milliseconds, not seconds.
pub static FUEL_BUDGET: std::sync::atomic::AtomicU64 = std::sync::atomic::AtomicU64::new(100_000);

/// Crash hunting (see driver::hunt_crash): when VERIF_TRACE_RUNS names a file, every worker writes
/// the explicit scenario it is about to execute into it, so that after the process died (stack
/// overflow, abort) the scenario that killed it can be read back. Off in normal runs.
pub fn note_current(scenario: impl FnOnce() -> serde_json::Value) {
    static PATH: std::sync::OnceLock<Option<std::path::PathBuf>> = std::sync::OnceLock::new();
    if let Some(p) = PATH.get_or_init(|| std::env::var_os("VERIF_TRACE_RUNS").map(Into::into)) {
        let _ = std::fs::write(p, scenario().to_string());
    }
}

thread_local! {
    static PANICS: RefCell<Vec<String>> = const { RefCell::new(Vec::new()) };
}

/// Installs a quiet panic hook that stores the message (with location) for the current thread.
pub fn install_panic_hook() {
    panic::set_hook(Box::new(|info| {
        let msg = if let Some(s) = info.payload().downcast_ref::<&str>() {
            s.to_string()
        } else if let Some(s) = info.payload().downcast_ref::<String>() {
            s.clone()
        } else {
            "<non-string panic>".to_string()
        };
        let loc = info
            .location()
            .map(|l| format!("{}:{}", l.file(), l.line()))
            .unwrap_or_default();
        PANICS.with(|p| {
            if let Ok(mut p) = p.try_borrow_mut() {
                if p.len() < 16 {
                    p.push(format!("{msg} @ {loc}"));
                }
            }
        });
        if std::env::var_os("VERIF_SHOW_PANICS").is_some() {
            eprintln!("[panic] {msg} @ {loc}");
        }
    }));
}

/// All panic messages recorded on this thread since the last call (first one first).
pub fn take_panics() -> Vec<String> {
    PANICS.with(|p| std::mem::take(&mut *p.borrow_mut()))
}

fn last_panic() -> Option<String> {
    PANICS.with(|p| p.borrow().last().cloned())
}

/// Runs `f` under catch_unwind on the current thread.
pub fn guarded<R>(f: impl FnOnce() -> R) -> Result<R, String> {
    match panic::catch_unwind(AssertUnwindSafe(f)) {
        Ok(r) => Ok(r),
        Err(_) => {
            let m = last_panic().unwrap_or_else(|| "<panic>".into());
            PANICS.with(|p| {
                let mut p = p.borrow_mut();
                if p.len() >= 16 {
                    p.clear();
                }
            });
            Err(m)
        }
    }
}

/// Runs `f` on a fresh OS thread whose hash keys derive from `key_seed`.
pub fn on_fresh_thread<R: Send + 'static>(
    key_seed: u64,
    f: impl FnOnce() -> R + Send + 'static,
) -> Result<R, String> {
    let (tx, rx) = std::sync::mpsc::channel::<Result<R, String>>();
    let h = std::thread::Builder::new()
        .stack_size(256 << 20)
        .spawn(move || {
            keys::set_key_seed(key_seed);
            simplesl_verif_seams::sync::reset_lock_ids();
            simplesl_verif_seams::os::uninstall();
            simplesl_verif_seams::fuel::reset(1500, FUEL_BUDGET.load(std::sync::atomic::Ordering::Relaxed));
            let r = guarded(f);
            simplesl_verif_seams::os::uninstall();
            simplesl_verif_seams::sync::sim_abort();
            let _ = tx.send(r);
        })
        .expect("spawn run thread");
    // watchdog: a run that does not finish (e.g. code under test blocking on a primitive the
    // scheduler does not own) must not hang the worker; the thread is abandoned
    match rx.recv_timeout(std::time::Duration::from_secs(RUN_TIMEOUT_S)) {
        Ok(r) => {
            let _ = h.join();
            r
        }
        Err(std::sync::mpsc::RecvTimeoutError::Timeout) => Err(format!("{WATCHDOG}: run did not finish within {RUN_TIMEOUT_S} s (thread abandoned)")),
        Err(_) => Err("<run thread died>".into()),
    }
}

pub const RUN_TIMEOUT_S: u64 = 25;
pub const WATCHDOG: &str = "VERIF-WATCHDOG";
