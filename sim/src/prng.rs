//! One integer decides everything: SplitMix64 streams derived from VERIF_SEED by purpose tag.
#[derive(Clone, Debug)]
pub struct Rng(pub u64);

pub fn mix(mut z: u64) -> u64 {
    z = z.wrapping_add(0x9E37_79B9_7F4A_7C15);
    z = (z ^ (z >> 30)).wrapping_mul(0xBF58_476D_1CE4_E5B9);
    z = (z ^ (z >> 27)).wrapping_mul(0x94D0_49BB_1331_11EB);
    z ^ (z >> 31)
}

/// FNV-1a over the tag, mixed with the seed: independent stream per purpose.
pub fn derive(seed: u64, tag: &str) -> u64 {
    let mut h: u64 = 0xcbf2_9ce4_8422_2325;
    for b in tag.bytes() {
        h ^= b as u64;
        h = h.wrapping_mul(0x0000_0100_0000_01B3);
    }
    mix(seed ^ mix(h))
}

pub fn derive_n(seed: u64, tag: &str, n: u64) -> u64 {
    mix(derive(seed, tag) ^ mix(n.wrapping_mul(0xD6E8_FEB8_6659_FD93)))
}

impl Rng {
    pub fn new(seed: u64) -> Self {
        Rng(seed)
    }
    pub fn stream(seed: u64, tag: &str) -> Self {
        Rng(derive(seed, tag))
    }
    pub fn next(&mut self) -> u64 {
        self.0 = self.0.wrapping_add(0x9E37_79B9_7F4A_7C15);
        let mut z = self.0;
        z = (z ^ (z >> 30)).wrapping_mul(0xBF58_476D_1CE4_E5B9);
        z = (z ^ (z >> 27)).wrapping_mul(0x94D0_49BB_1331_11EB);
        z ^ (z >> 31)
    }
    /// uniform in 0..n (n > 0)
    pub fn below(&mut self, n: usize) -> usize {
        (self.next() % n as u64) as usize
    }
    pub fn range(&mut self, lo: usize, hi_incl: usize) -> usize {
        lo + self.below(hi_incl - lo + 1)
    }
    pub fn chance(&mut self, num: u64, den: u64) -> bool {
        self.next() % den < num
    }
    pub fn pick<'a, T>(&mut self, xs: &'a [T]) -> &'a T {
        &xs[self.below(xs.len())]
    }
    pub fn shuffle<T>(&mut self, xs: &mut [T]) {
        for i in (1..xs.len()).rev() {
            let j = self.below(i + 1);
            xs.swap(i, j);
        }
    }
}

/// Stable 64-bit digest of a string (FNV-1a + mix); used for "distinct" measures.
pub fn digest(s: &str) -> u64 {
    let mut h: u64 = 0xcbf2_9ce4_8422_2325;
    for b in s.bytes() {
        h ^= b as u64;
        h = h.wrapping_mul(0x0000_0100_0000_01B3);
    }
    mix(h)
}
